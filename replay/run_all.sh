#!/bin/bash
# Runs every replay driver against /repo (sanity: they must all PASS on the unchanged tree).
export GOFLAGS=-mod=mod GOPROXY=off GOSUMDB=off GOTOOLCHAIN=local
cd "$(dirname "$0")"
T=$(mktemp -d /tmp/govc-replay-all.XXXX); trap 'rm -rf $T' EXIT
rc=0
while read f pkg test; do
  echo "{\"Replace\":{\"/repo/$pkg/zz_govc_replay_test.go\":\"$(pwd)/$f\"}}" > $T/ov.json
  out=$(cd /repo && go test -overlay $T/ov.json -vet=off -count=1 -timeout 120s -run "^$test\$" ./$pkg 2>&1); r=$?
  echo "$test: exit=$r $(echo "$out" | grep -c REPLAY-VIOLATION) violations"; [ $r -ne 0 ] && { echo "$out" | tail -5; rc=1; }
done <<LIST
frames_test.go.txt . TestZZReplayFrames
reader_test.go.txt . TestZZReplayReader
backoff_test.go.txt . TestZZReplayBackoff
docall_test.go.txt . TestZZReplayDoCall
auth/hasperm_test.go.txt auth TestZZReplayHasPerm
httpio/wrc_test.go.txt httpio TestZZReplayWaitReadCloser
LIST
exit $rc
