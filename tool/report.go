package main

import (
	"encoding/json"
	"fmt"
	"os"
	"path/filepath"
	"sort"
	"strings"
)

type replayFile struct {
	Property    string   `json:"property"`
	Obligation  string   `json:"obligation"`
	Kind        string   `json:"kind"`
	Function    string   `json:"function"`
	Position    string   `json:"position"`
	Status      string   `json:"solver_status"`
	Model       string   `json:"model,omitempty"`
	SolverOut   string   `json:"solver_output,omitempty"`
	Query       string   `json:"smt_query,omitempty"`
	Replay      string   `json:"replay,omitempty"`
	ReplayOut   string   `json:"replay_output,omitempty"`
	Confirmed   bool     `json:"replay_confirmed"`
	Explanation string   `json:"explanation"`
	Notes       []string `json:"notes,omitempty"`
}

func (e *Engine) report(prop, tier string, seed int, groups []*groupResult, missing, notes []string, wall float64, units []string) int {
	verif := *flagVerif
	known := loadKnown(verif)
	isKnown := func(name string) *KnownFinding {
		for i := range known {
			if known[i].Status == "open" && known[i].Property == prop && known[i].Obligation == name {
				return &known[i]
			}
		}
		return nil
	}
	total, discharged, trivial, queries := 0, 0, 0, 0
	covers, coversOK := 0, 0
	perBackend := map[string]int{}
	solverTime := 0.0
	var failed []*groupResult
	var knownHit []*groupResult
	var broken []string
	var samples []map[string]interface{}
	for _, g := range groups {
		queries += g.Queries
		solverTime += g.Time
		for s, n := range g.Solver {
			if s != "" {
				perBackend[s] += n
			}
		}
		if g.Kind == "cover" {
			covers++
			if g.Status == "discharged" {
				coversOK++
			} else {
				broken = append(broken, fmt.Sprintf("vacuity: %s is not satisfiable (%s)", g.Name, strings.TrimSpace(g.Raw)))
			}
			continue
		}
		if g.Status == "failed" || g.Status == "unknown" {
			if isKnown(g.Name) != nil {
				knownHit = append(knownHit, g)
				continue
			}
		}
		total++
		trivial += boolInt(g.Trivial == g.Queries)
		switch g.Status {
		case "discharged":
			discharged++
			if len(samples) < 6 && g.Trivial != g.Queries {
				samples = append(samples, map[string]interface{}{"obligation": g.Name, "status": "unsat", "queries": g.Queries, "position": g.Pos})
			}
		case "failed", "unknown":
			failed = append(failed, g)
		case "error":
			broken = append(broken, fmt.Sprintf("solver disagreement on %s: %s", g.Name, g.Raw))
		}
		if *flagShow {
			fmt.Printf("  %-10s %s (%d queries, %.2fs)\n", g.Status, g.Name, g.Queries, g.Time)
		}
	}
	if len(samples) == 0 {
		for _, g := range groups {
			if g.Kind != "cover" && len(samples) < 3 {
				samples = append(samples, map[string]interface{}{"obligation": g.Name, "status": g.Status, "queries": g.Queries})
			}
		}
	}
	exit := 0
	var violLines []string
	replayDir := filepath.Join(*flagOut, "replays", prop)
	for _, m := range missing {
		_ = os.MkdirAll(replayDir, 0o755)
		p := filepath.Join(replayDir, sanitize(truncate(m, 80))+".json")
		writeJSON(p, replayFile{Property: prop, Obligation: m, Kind: "contract-target-missing", Status: "n/a",
			Explanation: "a function, loop or name that the contracts of this property are attached to no longer exists in the code, so the property can no longer be shown to hold: " + m})
		violLines = append(violLines, fmt.Sprintf("VIOLATION property=%s replay=%s no-failing-input-found", prop, p))
		total++
	}
	for _, g := range failed {
		_ = os.MkdirAll(replayDir, 0o755)
		p := filepath.Join(replayDir, sanitize(truncate(strings.TrimPrefix(g.Name, prop+"/"), 120))+".json")
		rf := replayFile{Property: prop, Obligation: g.Name, Kind: g.Kind, Function: g.Func, Position: g.Pos, Status: g.Status,
			Model: g.Model, SolverOut: truncate(g.Raw, 4000), Query: g.FailText, Notes: notes}
		confirmed := false
		if !*flagNoReplay {
			confirmed = e.tryReplay(prop, g, &rf)
		}
		rf.Confirmed = confirmed
		if confirmed {
			rf.Explanation = "the obligation is refuted by the solver and the counterexample was replayed on the real code (see replay_output)"
			violLines = append(violLines, fmt.Sprintf("VIOLATION property=%s replay=%s", prop, p))
		} else {
			if g.Status == "failed" {
				rf.Explanation = "the obligation is refuted by the solver (model attached) on the current source; it discharges on the unchanged tree. No concrete failing input was replayed on the real code."
			} else {
				rf.Explanation = "the obligation could not be discharged on the current source (solver answer: " + g.Status + "); it discharges on the unchanged tree. No concrete failing input was found."
			}
			violLines = append(violLines, fmt.Sprintf("VIOLATION property=%s replay=%s no-failing-input-found", prop, p))
		}
		writeJSON(p, rf)
	}
	for _, g := range knownHit {
		k := isKnown(g.Name)
		fmt.Printf("KNOWN-FINDING: property=%s %s (%s)\n", prop, k.What, g.Name)
	}
	if len(broken) > 0 {
		for _, b := range broken {
			fmt.Fprintln(os.Stderr, "govc: BROKEN CHECK:", b)
		}
		exit = 2
	}
	if len(violLines) > 0 {
		for _, l := range violLines {
			fmt.Println(l)
		}
		// a violated obligation is the primary finding: an unsatisfiable cover next to it (typically a consequence of
		// the same change) does not turn the report into "broken check"
		exit = 1
	}
	if total == 0 && exit == 0 {
		fmt.Fprintln(os.Stderr, "govc: BROKEN CHECK: no obligations were generated for", prop)
		exit = 2
	}
	// evidence
	var assumptions []string
	assumptions = append(assumptions, e.spec.Assumes...)
	for _, a := range e.axiomTexts {
		assumptions = append(assumptions, "axiom (assumed): "+a)
	}
	var ext []string
	for k := range e.extUsed {
		ext = append(ext, k)
	}
	sort.Strings(ext)
	for _, k := range ext {
		assumptions = append(assumptions, "assumed contract of external function: "+k)
	}
	for f, r := range e.spec.Unsync {
		assumptions = append(assumptions, "unsynchronised access by design (not checked): "+f+": "+r)
	}
	for _, n := range libModelNames {
		assumptions = append(assumptions, "built-in library model (trusted): "+n)
	}
	assumptions = append(assumptions,
		"machine integers are treated as mathematical integers (no overflow obligations); floats as reals",
		"external calls without a contract return arbitrary values, do not panic and do not modify this module's state",
		"interior pointers to by-value struct fields are not written through aliases of another static type",
		"methods are invoked on non-nil receivers",
		"termination and progress are not proved (partial correctness only)")
	sort.Strings(assumptions[:len(assumptions)-5])
	ev := map[string]interface{}{
		"property_id": prop,
		"tier":        tier,
		"seed":        seed,
		"level":       "proof",
		"wall_s":      wall,
		"violations":  len(violLines),
		"assumptions": dedupe(assumptions),
		"coverage": map[string]interface{}{
			"obligations":              total,
			"discharged":               discharged,
			"discharged_syntactically": trivial,
			"solver_queries":           queries,
			"checker_cmd":              fmt.Sprintf("/verif/check %s %s", prop, tier),
			"trusted_base": []string{"govc VC generator (/verif/tool)", "golang.org/x/tools/go/ssa v0.29.0 (naive form) as the semantics of Go source",
				"z3 5.1.0 (z3-new), z3 4.8.12, cvc5 1.0", "prelude contracts /verif/prelude/*.spec and the built-in library models"},
			"functions_under_contract":  units,
			"per_backend":               perBackend,
			"solver_time_s":             solverTime,
			"vacuity_covers":            covers,
			"vacuity_covers_sat":        coversOK,
			"abstracted_instructions":   e.abstracted,
			"havocked_calls":            e.havocCalls,
			"inlined_callees":           e.inlined,
			"unit_stats":                e.unitStats,
			"known_findings_suppressed": len(knownHit),
			"samples":                   samples,
			"notes":                     notes,
			"engine_warnings":           e.warnings,
			"explanation": "every obligation is an SMT query (path condition and not goal) generated from the current SSA of the listed functions; discharged = unsat. " +
				"Obligations that share a name are the same obligation reached on different paths and are all required to be unsat.",
		},
	}
	_ = os.MkdirAll(filepath.Join(*flagOut, "evidence"), 0o755)
	writeJSON(filepath.Join(*flagOut, "evidence", prop+".json"), ev)
	fmt.Printf("govc: property %s tier %s: %d obligations, %d discharged (%d syntactically), %d failing, %d known findings, %d queries, %d/%d covers, %.1fs\n",
		prop, tier, total, discharged, trivial, len(failed)+len(missing), len(knownHit), queries, coversOK, covers, wall)
	return exit
}

func boolInt(b bool) int {
	if b {
		return 1
	}
	return 0
}

func dedupe(in []string) []string {
	seen := map[string]bool{}
	var out []string
	for _, s := range in {
		if !seen[s] {
			seen[s] = true
			out = append(out, s)
		}
	}
	return out
}

func writeJSON(path string, v interface{}) {
	data, err := json.MarshalIndent(v, "", " ")
	if err != nil {
		fmt.Fprintln(os.Stderr, "govc: cannot encode", path, err)
		return
	}
	_ = os.WriteFile(path, append(data, '\n'), 0o644)
}
