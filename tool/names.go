package main

// Rename tolerance. Contracts live out of line (comment files), so unlike in-line annotations they do not move with
// the code when a local variable, a parameter, an unexported function or a closure ordinal changes. To keep such
// harmless edits from raising "contract target missing" alarms, a table of the names the contracts were written
// against (contracts-pinned/names.json, generated with `govc -gen-names` when the contracts are pinned) is compared
// with the current tree: a baseline name that disappeared is paired with the new name that took its place (same
// type, same defining expression shape, same order), and the contracts are evaluated through that pairing.
// A wrong pairing cannot make a property pass that should fail in any way other than a wrong hand-written name could:
// the obligations are still generated from the current code; the pairing only decides which current variable a
// contract identifier denotes.

import (
	"encoding/json"
	"fmt"
	"go/token"
	"go/types"
	"os"
	"path/filepath"
	"regexp"
	"sort"
	"strings"

	"golang.org/x/tools/go/ssa"
)

type varInfo struct {
	N string `json:"n"`
	T string `json:"t"`
	D string `json:"d,omitempty"` // shape of the defining expression
}

type fnInfo struct {
	Sig    string    `json:"sig"`
	Params []varInfo `json:"params,omitempty"`
	Locals []varInfo `json:"locals,omitempty"`
	Free   []varInfo `json:"free,omitempty"`
	FP     string    `json:"fp"`
	Anon   []string  `json:"anon,omitempty"`   // directly nested closures, in ssa order (raw names)
	MutPar []string  `json:"mutpar,omitempty"` // parameters that the function itself reassigns or writes into
}

// package-level because shortName is a pure function used everywhere
var fnCurToOld = map[string]string{}

func rawShortName(full string) string {
	s := strings.ReplaceAll(full, modPath+"/", "")
	s = strings.ReplaceAll(s, modPath+".", "")
	return s
}

func typeStr(t types.Type) string {
	return canonAny(types.TypeString(t, func(p *types.Package) string { return p.Name() }))
}

func defShape(a *ssa.Alloc) string {
	// the first store into the alloc
	refs := a.Referrers()
	if refs == nil {
		return ""
	}
	var first *ssa.Store
	for _, r := range *refs {
		if s, ok := r.(*ssa.Store); ok && s.Addr == a {
			if first == nil || s.Pos() < first.Pos() {
				first = s
			}
		}
	}
	if first == nil {
		return "zero"
	}
	return valShape(first.Val, 0)
}

func valShape(v ssa.Value, d int) string {
	if d > 2 {
		return "…"
	}
	switch x := v.(type) {
	case *ssa.Const:
		return "const"
	case *ssa.Parameter:
		for i, p := range x.Parent().Params {
			if p == x {
				return fmt.Sprintf("param%d", i)
			}
		}
	case *ssa.Call:
		if c := x.Call.StaticCallee(); c != nil {
			return "call:" + c.Name()
		}
		if x.Call.IsInvoke() {
			return "invoke:" + x.Call.Method.Name()
		}
		if b, ok := x.Call.Value.(*ssa.Builtin); ok {
			return "builtin:" + b.Name()
		}
		return "dyncall"
	case *ssa.Extract:
		return valShape(x.Tuple, d+1) + fmt.Sprintf("#%d", x.Index)
	case *ssa.MakeChan:
		return "makechan"
	case *ssa.MakeMap:
		return "makemap"
	case *ssa.MakeSlice:
		return "makeslice"
	case *ssa.MakeClosure:
		return "closure"
	case *ssa.MakeInterface:
		return "iface(" + valShape(x.X, d+1) + ")"
	case *ssa.UnOp:
		if x.Op == token.ARROW {
			return "recv"
		}
		if x.Op == token.MUL {
			if fa, ok := x.X.(*ssa.FieldAddr); ok {
				st := fa.X.Type().Underlying().(*types.Pointer).Elem().Underlying().(*types.Struct)
				return "field:" + st.Field(fa.Field).Name()
			}
			return "load"
		}
		return "unop" + x.Op.String()
	case *ssa.BinOp:
		return "binop" + x.Op.String()
	case *ssa.Next:
		return "next"
	case *ssa.Lookup:
		return "lookup"
	case *ssa.TypeAssert:
		return "assert"
	case *ssa.Select:
		return "select"
	case *ssa.Convert, *ssa.ChangeType, *ssa.ChangeInterface:
		return "conv"
	case *ssa.Slice:
		return "slice"
	case *ssa.Alloc:
		return "alloc"
	case *ssa.FieldAddr, *ssa.IndexAddr:
		return "addr"
	}
	return "other"
}

func fingerprint(fn *ssa.Function) string {
	ops := map[string]bool{}
	for _, b := range fn.Blocks {
		for _, in := range b.Instrs {
			switch x := in.(type) {
			case ssa.CallInstruction:
				c := x.Common()
				pre := "call:"
				switch in.(type) {
				case *ssa.Go:
					pre = "go:"
				case *ssa.Defer:
					pre = "defer:"
				}
				if f := c.StaticCallee(); f != nil {
					if f.Parent() != nil {
						ops[pre+"closure"] = true
					} else {
						ops[pre+f.Name()] = true
					}
				} else if c.IsInvoke() {
					ops[pre+"."+c.Method.Name()] = true
				} else if bi, ok := c.Value.(*ssa.Builtin); ok {
					ops[pre+"builtin."+bi.Name()] = true
				} else {
					ops[pre+"dyn"] = true
				}
			case *ssa.FieldAddr:
				st := x.X.Type().Underlying().(*types.Pointer).Elem().Underlying().(*types.Struct)
				ops["f:"+st.Field(x.Field).Name()] = true
			case *ssa.Send:
				ops["send"] = true
			case *ssa.Select:
				ops["select"] = true
			case *ssa.UnOp:
				if x.Op == token.ARROW {
					ops["recv"] = true
				}
			case *ssa.MapUpdate:
				ops["mapset"] = true
			case *ssa.Lookup:
				ops["lookup"] = true
			case *ssa.Panic:
				ops["panic"] = true
			case *ssa.MakeClosure:
				ops["mkclosure"] = true
			}
		}
	}
	var l []string
	for o := range ops {
		l = append(l, o)
	}
	sort.Strings(l)
	return strings.Join(l, " ")
}

func sortedAllocs(fn *ssa.Function) []*ssa.Alloc {
	var allocs []*ssa.Alloc
	seen := map[*ssa.Alloc]bool{}
	for _, b := range fn.Blocks {
		for _, in := range b.Instrs {
			if a, ok := in.(*ssa.Alloc); ok && a.Comment != "" && !seen[a] {
				seen[a] = true
				allocs = append(allocs, a)
			}
		}
	}
	for _, a := range fn.Locals {
		if !seen[a] && a.Comment != "" {
			seen[a] = true
			allocs = append(allocs, a)
		}
	}
	sort.SliceStable(allocs, func(i, j int) bool { return allocs[i].Pos() < allocs[j].Pos() })
	return allocs
}

func collectFn(fn *ssa.Function) *fnInfo {
	fi := &fnInfo{Sig: typeStr(fn.Signature), FP: fingerprint(fn)}
	if fn.Signature.Recv() != nil {
		fi.Sig = "(" + typeStr(fn.Signature.Recv().Type()) + ")" + fi.Sig
	}
	// drop parameter names from the signature string: rebuild from types only
	var ps []string
	for i := 0; i < fn.Signature.Params().Len(); i++ {
		ps = append(ps, typeStr(fn.Signature.Params().At(i).Type()))
	}
	var rs []string
	for i := 0; i < fn.Signature.Results().Len(); i++ {
		rs = append(rs, typeStr(fn.Signature.Results().At(i).Type()))
	}
	fi.Sig = "func(" + strings.Join(ps, ",") + ")(" + strings.Join(rs, ",") + ")"
	if fn.Signature.Recv() != nil {
		fi.Sig = typeStr(fn.Signature.Recv().Type()) + "." + fi.Sig
	}
	for _, p := range fn.Params {
		fi.Params = append(fi.Params, varInfo{N: p.Name(), T: typeStr(p.Type())})
	}
	for _, fv := range fn.FreeVars {
		fi.Free = append(fi.Free, varInfo{N: fv.Name(), T: typeStr(fv.Type())})
	}
	allocs := sortedAllocs(fn)
	for _, a := range allocs {
		fi.Locals = append(fi.Locals, varInfo{N: a.Comment, T: typeStr(a.Type()), D: defShape(a)})
	}
	for _, an := range fn.AnonFuncs {
		fi.Anon = append(fi.Anon, rawShortName(an.String()))
	}
	fi.MutPar = mutatedParams(fn)
	return fi
}

// mutatedParams: parameters whose spill slot is stored to after the initial spill, written through (a field or
// element of a by-value parameter), declared again under the same name, or whose address escapes.
func mutatedParams(fn *ssa.Function) []string {
	var out []string
	count := map[string]int{}
	for _, a := range sortedAllocs(fn) {
		count[a.Comment]++
	}
	for _, p := range fn.Params {
		var slot *ssa.Alloc
		if p.Referrers() != nil {
			for _, r := range *p.Referrers() {
				if st, ok := r.(*ssa.Store); ok && st.Val == p {
					if a, ok := st.Addr.(*ssa.Alloc); ok && a.Comment == p.Name() {
						slot = a
					}
				}
			}
		}
		if slot == nil {
			continue
		}
		mut := count[p.Name()] > 1
		var visit func(v ssa.Value, root bool)
		seen := map[ssa.Value]bool{}
		visit = func(v ssa.Value, root bool) {
			if seen[v] || v.Referrers() == nil {
				return
			}
			seen[v] = true
			for _, r := range *v.Referrers() {
				switch x := r.(type) {
				case *ssa.Store:
					if x.Addr == v && !(root && x.Val == ssa.Value(p)) {
						mut = true
					}
					if x.Val == v {
						mut = true // the address is stored somewhere
					}
				case *ssa.FieldAddr:
					if x.X == v {
						visit(x, false)
					}
				case *ssa.IndexAddr:
					if x.X == v {
						if _, isArr := x.X.Type().Underlying().(*types.Pointer).Elem().Underlying().(*types.Array); isArr {
							visit(x, false)
						}
					}
				case *ssa.UnOp, *ssa.DebugRef:
				case ssa.CallInstruction:
					mut = true // address passed to a call
				case *ssa.MakeClosure:
					cf := x.Fn.(*ssa.Function)
					for j, b := range x.Bindings {
						if b == v && j < len(cf.FreeVars) && closureWrites(cf, cf.FreeVars[j], map[*ssa.Function]bool{}) {
							mut = true
						}
					}
				case *ssa.MakeInterface, *ssa.Phi, *ssa.Slice, *ssa.ChangeType, *ssa.Convert:
					mut = true
				}
			}
		}
		visit(slot, true)
		if mut {
			out = append(out, p.Name())
		}
	}
	return out
}

// closureWrites: does fn (or a closure it creates) store through the captured variable fv?
func closureWrites(fn *ssa.Function, fv *ssa.FreeVar, seen map[*ssa.Function]bool) bool {
	if seen[fn] || fv.Referrers() == nil {
		return false
	}
	seen[fn] = true
	var visit func(v ssa.Value) bool
	visit = func(v ssa.Value) bool {
		if v.Referrers() == nil {
			return false
		}
		for _, r := range *v.Referrers() {
			switch x := r.(type) {
			case *ssa.Store:
				if x.Addr == v || x.Val == v {
					return true
				}
			case *ssa.FieldAddr:
				if x.X == v && visit(x) {
					return true
				}
			case *ssa.IndexAddr:
				if x.X == v {
					if _, isArr := x.X.Type().Underlying().(*types.Pointer).Elem().Underlying().(*types.Array); isArr && visit(x) {
						return true
					}
				}
			case *ssa.UnOp, *ssa.DebugRef:
			case *ssa.MakeClosure:
				cf := x.Fn.(*ssa.Function)
				for j, b := range x.Bindings {
					if b == v && j < len(cf.FreeVars) && closureWrites(cf, cf.FreeVars[j], seen) {
						return true
					}
				}
			default:
				return true
			}
		}
		return false
	}
	return visit(fv)
}

func collectNames(fns []*ssa.Function) map[string]*fnInfo {
	out := map[string]*fnInfo{}
	for _, f := range fns {
		if f.Blocks == nil {
			continue
		}
		out[rawShortName(f.String())] = collectFn(f)
	}
	return out
}

// pairVars pairs baseline-only names with current-only names: first by (type, defining shape), then by type, both in
// order and only where the counts agree. Returns cur -> old.
func pairVars(base, cur []varInfo) map[string]string {
	bn, cn := map[string]bool{}, map[string]bool{}
	for _, v := range base {
		bn[v.N] = true
	}
	for _, v := range cur {
		cn[v.N] = true
	}
	var bo, co []varInfo
	seen := map[string]bool{}
	for _, v := range base {
		if !cn[v.N] && !seen[v.N] {
			seen[v.N] = true
			bo = append(bo, v)
		}
	}
	seen = map[string]bool{}
	for _, v := range cur {
		if !bn[v.N] && !seen[v.N] {
			seen[v.N] = true
			co = append(co, v)
		}
	}
	out := map[string]string{}
	usedB, usedC := map[int]bool{}, map[int]bool{}
	pass := func(key func(varInfo) string) {
		gb, gc := map[string][]int{}, map[string][]int{}
		for i, v := range bo {
			if !usedB[i] {
				gb[key(v)] = append(gb[key(v)], i)
			}
		}
		for i, v := range co {
			if !usedC[i] {
				gc[key(v)] = append(gc[key(v)], i)
			}
		}
		for k, bi := range gb {
			ci := gc[k]
			if len(ci) != len(bi) {
				continue
			}
			for j := range bi {
				out[co[ci[j]].N] = bo[bi[j]].N
				usedB[bi[j]], usedC[ci[j]] = true, true
			}
		}
	}
	pass(func(v varInfo) string { return v.T + "|" + v.D })
	pass(func(v varInfo) string { return v.T })
	return out
}

// pairSeq aligns the declaration sequences (which may declare one name several times): unchanged declarations are
// anchors (longest common subsequence on name and type); within each gap baseline and current declarations are
// paired by (type, defining shape) and then by type, in order and only where the counts agree.
// Result: for every current index the baseline name ("" = no counterpart).
func pairSeq(base, cur []varInfo) []string {
	n, m := len(base), len(cur)
	same := func(i, j int) bool { return base[i].N == cur[j].N && base[i].T == cur[j].T }
	l := make([][]int, n+1)
	for i := range l {
		l[i] = make([]int, m+1)
	}
	for i := n - 1; i >= 0; i-- {
		for j := m - 1; j >= 0; j-- {
			if same(i, j) {
				l[i][j] = l[i+1][j+1] + 1
			} else if l[i+1][j] >= l[i][j+1] {
				l[i][j] = l[i+1][j]
			} else {
				l[i][j] = l[i][j+1]
			}
		}
	}
	out := make([]string, m)
	gap := func(b0, b1, c0, c1 int) {
		usedB, usedC := map[int]bool{}, map[int]bool{}
		pass := func(key func(varInfo) string) {
			gb, gc := map[string][]int{}, map[string][]int{}
			for i := b0; i < b1; i++ {
				if !usedB[i] {
					gb[key(base[i])] = append(gb[key(base[i])], i)
				}
			}
			for j := c0; j < c1; j++ {
				if !usedC[j] {
					gc[key(cur[j])] = append(gc[key(cur[j])], j)
				}
			}
			for k, bi := range gb {
				ci := gc[k]
				if len(ci) != len(bi) {
					continue
				}
				for x := range bi {
					out[ci[x]] = base[bi[x]].N
					usedB[bi[x]], usedC[ci[x]] = true, true
				}
			}
		}
		// only declarations with the same type AND the same defining expression shape are a rename; a variable that is
		// computed differently is a different variable (pairing it could make a contract about the old one vacuous)
		pass(func(v varInfo) string { return v.T + "|" + v.D })
	}
	i, j, gb, gc := 0, 0, 0, 0
	for i < n && j < m {
		if same(i, j) {
			gap(gb, i, gc, j)
			out[j] = base[i].N
			i, j = i+1, j+1
			gb, gc = i, j
		} else if l[i+1][j] >= l[i][j+1] {
			i++
		} else {
			j++
		}
	}
	gap(gb, n, gc, m)
	return out
}

type nameTables struct {
	local  map[string]map[string]string // raw current function name -> (cur var -> old var): parameters and captured variables
	allocs map[string][]string          // raw current function name -> baseline name per declaration index
	notes  []string
	base   map[string]*fnInfo
}

func loadBaselineNames(verif string) map[string]*fnInfo {
	data, err := os.ReadFile(filepath.Join(verif, "contracts-pinned", "names.json"))
	if err != nil {
		return nil
	}
	var m map[string]*fnInfo
	if json.Unmarshal(data, &m) != nil {
		return nil
	}
	return m
}

// matchChildren pairs the closures nested directly in a matched (baseline, current) function pair.
func matchChildren(base, cur map[string]*fnInfo, bParent, cParent string, pairs map[string]string) {
	bi, ci := base[bParent], cur[cParent]
	if bi == nil || ci == nil {
		return
	}
	suffix := func(parent, name string) string { return strings.TrimPrefix(name, parent) }
	usedC := map[string]bool{}
	matched := map[string]string{} // base -> cur
	// 1. same ordinal and same fingerprint
	for _, b := range bi.Anon {
		c := cParent + suffix(bParent, b)
		if cur[c] != nil && base[b] != nil && cur[c].Sig == base[b].Sig && cur[c].FP == base[b].FP {
			matched[b], usedC[c] = c, true
		}
	}
	// 2. same fingerprint, in order
	for _, b := range bi.Anon {
		if matched[b] != "" || base[b] == nil {
			continue
		}
		for _, c := range ci.Anon {
			if !usedC[c] && cur[c] != nil && cur[c].Sig == base[b].Sig && cur[c].FP == base[b].FP {
				matched[b], usedC[c] = c, true
				break
			}
		}
	}
	// 3. same ordinal and same signature (the body changed)
	for _, b := range bi.Anon {
		if matched[b] != "" || base[b] == nil {
			continue
		}
		c := cParent + suffix(bParent, b)
		if !usedC[c] && cur[c] != nil && cur[c].Sig == base[b].Sig {
			matched[b], usedC[c] = c, true
		}
	}
	// 4. same signature, in order
	for _, b := range bi.Anon {
		if matched[b] != "" || base[b] == nil {
			continue
		}
		for _, c := range ci.Anon {
			if !usedC[c] && cur[c] != nil && cur[c].Sig == base[b].Sig {
				matched[b], usedC[c] = c, true
				break
			}
		}
	}
	for b, c := range matched {
		pairs[c] = b
		matchChildren(base, cur, b, c, pairs)
	}
	// current closures without a baseline counterpart must not collide with a baseline name
	n := 0
	for _, c := range ci.Anon {
		if !usedC[c] {
			n++
			nn := fmt.Sprintf("%s$new%d", bParent, n)
			pairs[c] = nn
			markNew(cur, c, nn, pairs)
		}
	}
}

func markNew(cur map[string]*fnInfo, c, nn string, pairs map[string]string) {
	if cur[c] == nil {
		return
	}
	for _, ch := range cur[c].Anon {
		n2 := nn + strings.TrimPrefix(ch, c)
		pairs[ch] = n2
		markNew(cur, ch, n2, pairs)
	}
}

// computeRenames fills fnCurToOld and returns the per-function variable pairings.
func computeRenames(base, cur map[string]*fnInfo) *nameTables {
	nt := &nameTables{local: map[string]map[string]string{}, allocs: map[string][]string{}, base: base}
	if base == nil {
		return nt
	}
	isTop := func(n string) bool { return !strings.Contains(n, "$") }
	pairs := map[string]string{} // cur raw -> old raw
	// top-level functions: identical names first, then disappeared <-> appeared with the same signature
	var gone, fresh []string
	for n := range base {
		if isTop(n) && cur[n] == nil {
			gone = append(gone, n)
		}
	}
	for n := range cur {
		if isTop(n) {
			if base[n] != nil {
				pairs[n] = n
			} else {
				fresh = append(fresh, n)
			}
		}
	}
	sort.Strings(gone)
	sort.Strings(fresh)
	usedF := map[string]bool{}
	for _, g := range gone {
		var cands []string
		for _, f := range fresh {
			if !usedF[f] && cur[f].Sig == base[g].Sig {
				cands = append(cands, f)
			}
		}
		if len(cands) > 1 {
			var c2 []string
			for _, f := range cands {
				if cur[f].FP == base[g].FP {
					c2 = append(c2, f)
				}
			}
			if len(c2) == 1 {
				cands = c2
			}
		}
		if len(cands) == 1 {
			pairs[cands[0]] = g
			usedF[cands[0]] = true
			nt.notes = append(nt.notes, fmt.Sprintf("function %s is treated as the renamed %s (same signature)", cands[0], g))
		}
	}
	for c, b := range pairs {
		if isTop(c) {
			matchChildren(base, cur, b, c, pairs)
		}
	}
	// code that moved between a closure and a named function (or between closures of different functions) keeps its
	// operation fingerprint: pair what is still unpaired on that basis, when the pairing is unique
	{
		usedOld := map[string]bool{}
		for _, b := range pairs {
			usedOld[b] = true
		}
		var oldFree, curFree []string
		for n := range base {
			if !usedOld[n] && base[n].FP != "" && len(strings.Fields(base[n].FP)) >= 3 {
				oldFree = append(oldFree, n)
			}
		}
		for n := range cur {
			if b, ok := pairs[n]; (!ok || strings.Contains(b, "$new")) && cur[n].FP != "" {
				curFree = append(curFree, n)
			}
		}
		sort.Strings(oldFree)
		sort.Strings(curFree)
		for _, o := range oldFree {
			var cands []string
			for _, c := range curFree {
				if cur[c].FP == base[o].FP {
					cands = append(cands, c)
				}
			}
			if len(cands) != 1 {
				continue
			}
			n := 0
			for _, o2 := range oldFree {
				if base[o2].FP == base[o].FP {
					n++
				}
			}
			if n != 1 {
				continue
			}
			c := cands[0]
			// re-home the nested closures of c as well
			oldPrefix := pairs[c]
			pairs[c] = o
			for k, v := range pairs {
				if oldPrefix != "" && strings.HasPrefix(v, oldPrefix+"$") {
					pairs[k] = o + strings.TrimPrefix(v, oldPrefix)
				} else if oldPrefix == "" && strings.HasPrefix(k, c+"$") {
					pairs[k] = o + strings.TrimPrefix(k, c)
				}
			}
			matchChildren(base, cur, o, c, pairs)
			nt.notes = append(nt.notes, fmt.Sprintf("%s is treated as the moved %s (same operations)", c, o))
		}
	}
	for c, b := range pairs {
		if c != b {
			fnCurToOld[c] = b
			if !strings.Contains(b, "$new") && !isTop(c) {
				nt.notes = append(nt.notes, fmt.Sprintf("closure %s is treated as %s of the pinned source", c, b))
			}
		}
		bi, ci := base[b], cur[c]
		if bi == nil || ci == nil {
			continue
		}
		m := map[string]string{}
		if len(bi.Params) == len(ci.Params) {
			for i := range bi.Params {
				if bi.Params[i].N != ci.Params[i].N && bi.Params[i].T == ci.Params[i].T {
					m[ci.Params[i].N] = bi.Params[i].N
				}
			}
		}
		seq := pairSeq(bi.Locals, ci.Locals)
		changed := false
		var rl []string
		for j, o := range seq {
			if o != "" && o != ci.Locals[j].N {
				changed = true
				rl = append(rl, o+"→"+ci.Locals[j].N)
			}
		}
		if changed {
			nt.allocs[c] = seq
			nt.notes = append(nt.notes, fmt.Sprintf("renamed local declarations in %s: %s", c, strings.Join(rl, ", ")))
		}
		if len(m) > 0 {
			nt.local[c] = m
			var l []string
			for k, v := range m {
				l = append(l, v+"→"+k)
			}
			sort.Strings(l)
			nt.notes = append(nt.notes, fmt.Sprintf("renamed parameters/captured variables in %s: %s", c, strings.Join(l, ", ")))
		}
	}
	// captured variables follow the enclosing function's pairing (never paired by type inside the closure: a closure
	// that now captures a different variable is a change of behaviour, not a rename)
	parentOf := func(n string) string {
		if i := strings.LastIndex(n, "$"); i > 0 {
			return n[:i]
		}
		return ""
	}
	var oldIn func(fn, name string) (string, bool)
	oldIn = func(fn, name string) (string, bool) {
		ci := cur[fn]
		if ci == nil {
			return "", false
		}
		for _, p := range ci.Params {
			if p.N == name {
				if o, ok := nt.local[fn][name]; ok {
					return o, true
				}
				return name, true
			}
		}
		found, old := false, ""
		for j, l := range ci.Locals {
			if l.N != name {
				continue
			}
			o := name
			if seq, ok := nt.allocs[fn]; ok && j < len(seq) && seq[j] != "" {
				o = seq[j]
			}
			if found && o != old {
				return name, true // ambiguous: keep
			}
			found, old = true, o
		}
		if found {
			return old, true
		}
		for _, f := range ci.Free {
			if f.N == name {
				if p := parentOf(fn); p != "" {
					return oldIn(p, name)
				}
			}
		}
		return "", false
	}
	for c := range pairs {
		ci := cur[c]
		p := parentOf(c)
		if ci == nil || p == "" {
			continue
		}
		for _, f := range ci.Free {
			if o, ok := oldIn(p, f.N); ok && o != f.N {
				if nt.local[c] == nil {
					nt.local[c] = map[string]string{}
				}
				if _, dup := nt.local[c][f.N]; !dup {
					nt.local[c][f.N] = o
					nt.notes = append(nt.notes, fmt.Sprintf("captured variable %s of %s is the renamed %s", f.N, c, o))
				}
			}
		}
	}
	sort.Strings(nt.notes)
	return nt
}

// vname: the name a variable of fn had in the pinned source (identity when it was not renamed).
func (e *Engine) vname(fn *ssa.Function, cur string) string {
	if e.names == nil || fn == nil || cur == "" {
		return cur
	}
	if m, ok := e.names.local[rawShortName(fn.String())]; ok {
		if o, ok := m[cur]; ok {
			return o
		}
	}
	return cur
}

// allocName: the name the declaration had in the pinned source.
func (e *Engine) allocName(a *ssa.Alloc) string {
	if e.names == nil || a.Comment == "" || a.Parent() == nil {
		return a.Comment
	}
	fn := a.Parent()
	seq, ok := e.names.allocs[rawShortName(fn.String())]
	if !ok {
		return e.vname(fn, a.Comment)
	}
	if e.allocIdx == nil {
		e.allocIdx = map[*ssa.Alloc]int{}
	}
	idx, ok := e.allocIdx[a]
	if !ok {
		for i, x := range sortedAllocs(fn) {
			e.allocIdx[x] = i
		}
		idx, ok = e.allocIdx[a]
		if !ok {
			return a.Comment
		}
	}
	if idx < len(seq) && seq[idx] != "" {
		return seq[idx]
	}
	return a.Comment
}

// entryParam: if name denotes (in the pinned source) a parameter of fn that the pinned function never reassigns,
// contracts mean the argument itself: the index of the parameter, else -1.
func (e *Engine) entryParam(fn *ssa.Function, name string) int {
	if e.names == nil || e.names.base == nil || fn == nil {
		return -1
	}
	bi := e.names.base[shortName(fn.String())]
	if bi == nil {
		return -1
	}
	for _, m := range bi.MutPar {
		if m == name {
			return -1
		}
	}
	for i, p := range bi.Params {
		if p.N == name && i < len(fn.Params) {
			return i
		}
	}
	return -1
}

// isNewCode: a module function (or closure) that has no counterpart in the pinned source.
func (e *Engine) isNewCode(fn *ssa.Function) bool {
	if e.names == nil || e.names.base == nil || fn == nil || len(fn.Blocks) == 0 {
		return false
	}
	if fn.Pkg == nil || !strings.HasPrefix(fn.Pkg.Pkg.Path(), modPath) {
		if fn.Parent() == nil || fn.Parent().Pkg == nil || !strings.HasPrefix(fn.Parent().Pkg.Pkg.Path(), modPath) {
			return false
		}
	}
	n := strings.TrimSuffix(shortName(fn.String()), "$bound")
	if strings.Contains(n, "$new") {
		return true
	}
	return e.names.base[n] == nil
}

// fieldOld: struct fields that were renamed since the contracts were pinned (field object -> pinned name).
var fieldOld = map[*types.Var]string{}

func fieldName(v *types.Var) string {
	if o, ok := fieldOld[v]; ok {
		return o
	}
	return v.Name()
}

// collectTypes: the fields of every named struct type of the module.
func collectTypes(pkgs []*types.Package) (map[string][]varInfo, map[string]*types.Struct) {
	out := map[string][]varInfo{}
	structs := map[string]*types.Struct{}
	for _, p := range pkgs {
		sc := p.Scope()
		for _, n := range sc.Names() {
			tn, ok := sc.Lookup(n).(*types.TypeName)
			if !ok || tn.IsAlias() {
				continue
			}
			stt, ok := tn.Type().Underlying().(*types.Struct)
			if !ok {
				continue
			}
			k := typeKey(tn.Type())
			var fs []varInfo
			for i := 0; i < stt.NumFields(); i++ {
				fs = append(fs, varInfo{N: stt.Field(i).Name(), T: typeStr(stt.Field(i).Type()), D: stt.Tag(i)})
			}
			out[k] = fs
			structs[k] = stt
		}
	}
	return out, structs
}

// computeFieldRenames pairs renamed fields (same type, same tag, same place between unchanged neighbours).
func computeFieldRenames(base map[string][]varInfo, cur map[string][]varInfo, structs map[string]*types.Struct) []string {
	var notes []string
	for k, cf := range cur {
		bf, ok := base[canonRenamedTypes(k)]
		if !ok {
			continue
		}
		stt := structs[k]
		// a field that disappeared is paired with the field that appeared with the same type and tag, if unique
		// (independent of the order of the fields)
		bn, cn := map[string]bool{}, map[string]bool{}
		for _, v := range bf {
			bn[v.N] = true
		}
		for _, v := range cf {
			cn[v.N] = true
		}
		key := func(v varInfo) string { return canonRenamedTypes(v.T) + "|" + v.D }
		gone, fresh := map[string][]string{}, map[string][]int{}
		for _, v := range bf {
			if !cn[v.N] {
				gone[key(v)] = append(gone[key(v)], v.N)
			}
		}
		for j, v := range cf {
			if !bn[v.N] {
				fresh[key(v)] = append(fresh[key(v)], j)
			}
		}
		for kk, g := range gone {
			f := fresh[kk]
			if len(g) != len(f) {
				continue
			}
			// several renamed fields of the same type and tag: keep their relative order
			for i := range g {
				if f[i] < stt.NumFields() {
					fieldOld[stt.Field(f[i])] = g[i]
					notes = append(notes, fmt.Sprintf("field %s.%s is treated as the renamed %s", k, cf[f[i]].N, g[i]))
				}
			}
		}
	}
	sort.Strings(notes)
	return notes
}

// ---- package-level objects (named types, variables, constants) ----

type objInfo struct {
	K string `json:"k"`           // type | var | const
	T string `json:"t"`           // underlying type (types) or declared type (vars, consts)
	V string `json:"v,omitempty"` // constant value
	M string `json:"m,omitempty"` // method names of a type
}

// objOldToCur / objCurToOld: "pkg.name" (pkg as in typeKey: "" for the module root) of renamed package-level objects.
var objOldToCur = map[string]string{}
var objCurToOld = map[string]string{}
var typeRenameRes []*regexp.Regexp
var typeRenameTo []string

func objKey(p *types.Package, name string) string {
	if sp := shortPkg(p.Path()); sp != "" {
		return sp + "." + name
	}
	return name
}

func collectObjs(pkgs []*types.Package) map[string]objInfo {
	out := map[string]objInfo{}
	for _, p := range pkgs {
		sc := p.Scope()
		for _, n := range sc.Names() {
			switch o := sc.Lookup(n).(type) {
			case *types.TypeName:
				if o.IsAlias() {
					continue
				}
				var ms []string
				if nt, ok := o.Type().(*types.Named); ok {
					for i := 0; i < nt.NumMethods(); i++ {
						ms = append(ms, nt.Method(i).Name())
					}
				}
				sort.Strings(ms)
				out[objKey(p, n)] = objInfo{K: "type", T: typeStr(o.Type().Underlying()), M: strings.Join(ms, ",")}
			case *types.Var:
				out[objKey(p, n)] = objInfo{K: "var", T: typeStr(o.Type())}
			case *types.Const:
				out[objKey(p, n)] = objInfo{K: "const", T: typeStr(o.Type()), V: o.Val().ExactString()}
			}
		}
	}
	return out
}

// computeObjRenames pairs package-level objects that disappeared with ones that appeared when kind, type, methods
// and (for constants) value agree and the pairing is unique. A renamed type changes the printed type of objects that
// mention it, so types are paired first and the comparison of the others is made modulo those renames.
func computeObjRenames(base, cur map[string]objInfo) []string {
	var notes []string
	pkgOf := func(k string) string {
		if i := strings.LastIndex(k, "."); i >= 0 {
			return k[:i]
		}
		return ""
	}
	canon := func(t string) string { return t }
	pass := func(kind string) {
		var gone, fresh []string
		for k, o := range base {
			if _, ok := cur[k]; !ok && o.K == kind {
				gone = append(gone, k)
			}
		}
		for k, o := range cur {
			if _, ok := base[k]; !ok && o.K == kind {
				fresh = append(fresh, k)
			}
		}
		sort.Strings(gone)
		sort.Strings(fresh)
		sig := func(o objInfo) string { return o.K + "|" + canon(o.T) + "|" + o.V + "|" + o.M }
		for _, g := range gone {
			var cands []string
			for _, f := range fresh {
				if pkgOf(f) == pkgOf(g) && sig(cur[f]) == sig(base[g]) {
					cands = append(cands, f)
				}
			}
			n := 0
			for _, g2 := range gone {
				if pkgOf(g2) == pkgOf(g) && sig(base[g2]) == sig(base[g]) {
					n++
				}
			}
			if len(cands) == 1 && n == 1 {
				objOldToCur[g] = cands[0]
				objCurToOld[cands[0]] = g
				notes = append(notes, fmt.Sprintf("package-level %s %s is treated as the renamed %s", kind, cands[0], g))
			}
		}
	}
	pass("type")
	// printed types of the remaining objects, modulo the type renames
	for c, o := range objCurToOld {
		if cur[c].K != "type" {
			continue
		}
		cn, on := c, o
		if i := strings.LastIndex(cn, "."); i >= 0 {
			cn, on = cn[i+1:], on[strings.LastIndex(on, ".")+1:]
		}
		re := regexp.MustCompile(`(^|[^A-Za-z0-9_])` + regexp.QuoteMeta(cn) + `($|[^A-Za-z0-9_])`)
		typeRenameRes = append(typeRenameRes, re)
		typeRenameTo = append(typeRenameTo, "${1}"+on+"${2}")
	}
	canon = canonRenamedTypes
	pass("const")
	pass("var")
	sort.Strings(notes)
	return notes
}

// canonRenamedTypes spells renamed module types with their pinned names inside a printed type.
func canonRenamedTypes(s string) string {
	for i, re := range typeRenameRes {
		for {
			n := re.ReplaceAllString(s, typeRenameTo[i])
			if n == s {
				break
			}
			s = n
		}
	}
	return s
}

// ---- external APIs of stateful packages ----

// statefulPkgs: packages whose objects carry state that the module's properties depend on; the contracts (and the
// prelude) only speak about the functions of these packages that the pinned source calls.
var statefulPkgs = []string{"github.com/gorilla/websocket", "net/http", "net", "encoding/json", "time", "context", "container/list", "os"}

func statefulExternal(f *ssa.Function) bool {
	if f == nil || f.Pkg == nil {
		return false
	}
	p := f.Pkg.Pkg.Path()
	for _, s := range statefulPkgs {
		if p == s {
			return true
		}
	}
	return false
}

// collectExtCalls: every function of a stateful external package that the module calls (statically or as a method
// value), by full name.
func collectExtCalls(fns []*ssa.Function) map[string]bool {
	out := map[string]bool{}
	for _, f := range fns {
		for _, b := range f.Blocks {
			for _, in := range b.Instrs {
				for _, op := range in.Operands(nil) {
					if op == nil || *op == nil {
						continue
					}
					if g, ok := (*op).(*ssa.Function); ok && statefulExternal(g) {
						out[g.String()] = true
					}
				}
				if ci, ok := in.(ssa.CallInstruction); ok && ci.Common().IsInvoke() {
					m := ci.Common().Method
					if m.Pkg() != nil {
						for _, s := range statefulPkgs {
							if m.Pkg().Path() == s {
								out["invoke:"+m.FullName()] = true
							}
						}
					}
				}
			}
		}
	}
	return out
}
