package main

// Contract language: parsing of //@ lines and of specification expressions.

import (
	"fmt"
	"os"
	"strings"
)

type Expr struct {
	Op   string // ident, num, str, type, old, call, field, index, un, bin, forall, exists, sitevar
	Name string // ident / field name / operator / callee
	Args []*Expr
	Vars []string // quantifier variables
	Sort string   // quantifier variable sort
	Src  string
}

type Clause struct {
	Label string
	E     *Expr
	Src   string
	Tags  []string
	When  *Expr
}

type SiteRule struct {
	Sel      string // call, dyncall, go, send, recv, close, mapset, mapdel, maplookup, store, return, defer, makechan
	Pat      string // callee / field pattern
	Action   string // assert, let, inc, assume, forbid, set
	Var      string // let name / ghost name
	Cl       Clause
	Upd      *GhostUpdate
	Fired    int
	Owner    string
	Optional bool // a prohibition: the site need not exist
	IsGlobal bool
}

type Contract struct {
	Func       string
	Extern     bool
	Requires   []Clause
	Ensures    []Clause
	PanicEns   []Clause // ensures on the panicking exit (extern only: unused)
	Loops      map[int][]Clause
	Sites      []*SiteRule
	Modifies   []string
	HasMod     bool
	NoPanic    []string // tags
	HasNoPanic bool
	MayPanic   bool
	Inline     bool
	InitPhase  bool     // guard obligations waived before the first `go` on the path
	Pure       string   // name of the spec function giving the result
	Havoc      []string // extern: which pointer arguments are havocked ("$1")
	File       string
	Line       int
	Unsync     []string
	EntryLocks []string          // lock classes held at entry ("chanHandler.lk")
	Ghosts     map[string]string // ghost variables local to the function: name -> sort
	GhostInit  map[string]string
	Updates    []*GhostUpdate
	Safety     bool
	NoSafety   bool
}

// GhostUpdate: `update m(key) := value` — effect of a contract on a ghost map (evaluated in the pre-state).
type GhostUpdate struct {
	Map      string
	Key, Val *Expr
	When     *Expr
}

type GuardDecl struct {
	Lock   string   // "wsConn.writeLk"
	Fields []string // "wsConn.inflight"
	Inv    *Clause
	Tags   []string
}

type PropertyDecl struct {
	ID    string
	Units []string
	Sweep bool
	Core  map[string]bool
}

type SpecFile struct {
	Contracts   map[string]*Contract
	Externs     []*Contract // matched by suffix
	Preds       map[string]*PredDecl
	SpecFns     map[string]*Decl
	Guards      []*GuardDecl
	LockOrder   [][2]string
	Properties  map[string]*PropertyDecl
	Globals     []*SiteRule
	Unsync      map[string]string // field -> reason
	Assumes     []string          // free-text assumptions echoed into evidence
	Axioms      []Clause
	Lemmas      []Clause
	Statics     []StaticClause
	FuncTypes   map[string]*Contract
	Order       []string
	GhostMaps   map[string]*Decl
	Aliases     map[string]string
	SharedTypes map[string]bool
	ChanInvs    map[string]*Clause
	Immutable   map[string]bool
}

type PredDecl struct {
	Name   string
	Params []string
	Body   *Expr
	Src    string
}

func NewSpecFile() *SpecFile {
	return &SpecFile{Contracts: map[string]*Contract{}, Preds: map[string]*PredDecl{}, SpecFns: map[string]*Decl{},
		Properties: map[string]*PropertyDecl{}, Unsync: map[string]string{}, FuncTypes: map[string]*Contract{}, GhostMaps: map[string]*Decl{}, Aliases: map[string]string{}, SharedTypes: map[string]bool{}, ChanInvs: map[string]*Clause{}, Immutable: map[string]bool{}}
}

// ---------- lexer ----------

type tok struct {
	kind string // id, num, str, op, type, eof
	s    string
}

func lexExpr(src string) ([]tok, error) {
	var out []tok
	i := 0
	for i < len(src) {
		c := src[i]
		switch {
		case c == ' ' || c == '\t':
			i++
		case c >= '0' && c <= '9':
			j := i
			for j < len(src) && (src[j] >= '0' && src[j] <= '9' || src[j] == '.' && j+1 < len(src) && src[j+1] >= '0' && src[j+1] <= '9') {
				j++
			}
			out = append(out, tok{"num", src[i:j]})
			i = j
		case c == '"':
			j := i + 1
			for j < len(src) && src[j] != '"' {
				if src[j] == '\\' {
					j++
				}
				j++
			}
			if j >= len(src) {
				return nil, fmt.Errorf("unterminated string in %q", src)
			}
			out = append(out, tok{"str", src[i+1 : j]})
			i = j + 1
		case c == '#':
			j := i + 1
			depth := 0
			for j < len(src) {
				ch := src[j]
				if ch == '[' || ch == '{' {
					depth++
				} else if ch == ']' || ch == '}' {
					if depth == 0 {
						break
					}
					depth--
				} else if !(ch >= 'a' && ch <= 'z' || ch >= 'A' && ch <= 'Z' || ch >= '0' && ch <= '9' || ch == '_' || ch == '.' || ch == '*' || ch == '/' && depth >= 0 && false) {
					if depth == 0 {
						break
					}
				}
				j++
			}
			out = append(out, tok{"type", src[i+1 : j]})
			i = j
		case c == '$' || c == '_' || c >= 'a' && c <= 'z' || c >= 'A' && c <= 'Z':
			j := i + 1
			for j < len(src) && (src[j] == '_' || src[j] >= 'a' && src[j] <= 'z' || src[j] >= 'A' && src[j] <= 'Z' || src[j] >= '0' && src[j] <= '9') {
				j++
			}
			out = append(out, tok{"id", src[i:j]})
			i = j
		default:
			three := ""
			if i+3 <= len(src) {
				three = src[i : i+3]
			}
			two := ""
			if i+2 <= len(src) {
				two = src[i : i+2]
			}
			if three == "==>" || three == "<==" {
				out = append(out, tok{"op", three})
				i += 3
			} else if two == "==" || two == "!=" || two == "<=" || two == ">=" || two == "&&" || two == "||" || two == "::" {
				out = append(out, tok{"op", two})
				i += 2
			} else if strings.ContainsRune("+-*/%<>!()[].,:", rune(c)) {
				out = append(out, tok{"op", string(c)})
				i++
			} else {
				return nil, fmt.Errorf("unexpected character %q in %q", c, src)
			}
		}
	}
	out = append(out, tok{"eof", ""})
	return out, nil
}

type parser struct {
	toks []tok
	p    int
	src  string
}

func (p *parser) peek() tok { return p.toks[p.p] }
func (p *parser) next() tok { t := p.toks[p.p]; p.p++; return t }
func (p *parser) accept(s string) bool {
	if p.peek().kind == "op" && p.peek().s == s {
		p.p++
		return true
	}
	return false
}
func (p *parser) expect(s string) {
	if !p.accept(s) {
		panic(fmt.Errorf("expected %q at token %d (%q) in %q", s, p.p, p.peek().s, p.src))
	}
}

func ParseExpr(src string) (e *Expr, err error) {
	defer func() {
		if r := recover(); r != nil {
			if er, ok := r.(error); ok {
				err = er
				return
			}
			panic(r)
		}
	}()
	toks, err := lexExpr(src)
	if err != nil {
		return nil, err
	}
	p := &parser{toks: toks, src: src}
	e = p.expr()
	if p.peek().kind != "eof" {
		return nil, fmt.Errorf("trailing tokens at %q in %q", p.peek().s, src)
	}
	e.Src = src
	return e, nil
}

func (p *parser) expr() *Expr {
	if t := p.peek(); t.kind == "id" && (t.s == "forall" || t.s == "exists") {
		p.next()
		q := &Expr{Op: t.s, Sort: SInt}
		for {
			v := p.next()
			if v.kind != "id" {
				panic(fmt.Errorf("expected variable in quantifier in %q", p.src))
			}
			q.Vars = append(q.Vars, v.s)
			if !p.accept(",") {
				break
			}
		}
		if p.accept(":") {
			q.Sort = p.next().s
		}
		p.expect("::")
		q.Args = []*Expr{p.expr()}
		return q
	}
	return p.imp()
}

func (p *parser) imp() *Expr {
	l := p.or()
	if p.accept("==>") {
		r := p.imp2()
		return &Expr{Op: "bin", Name: "==>", Args: []*Expr{l, r}}
	}
	return l
}

// right side of an implication may itself be a quantifier
func (p *parser) imp2() *Expr {
	if t := p.peek(); t.kind == "id" && (t.s == "forall" || t.s == "exists") {
		return p.expr()
	}
	return p.imp()
}

func (p *parser) or() *Expr {
	l := p.and()
	for p.accept("||") {
		r := p.and()
		l = &Expr{Op: "bin", Name: "||", Args: []*Expr{l, r}}
	}
	return l
}

func (p *parser) and() *Expr {
	l := p.cmp()
	for p.accept("&&") {
		r := p.cmp()
		l = &Expr{Op: "bin", Name: "&&", Args: []*Expr{l, r}}
	}
	return l
}

func (p *parser) cmp() *Expr {
	l := p.add()
	for _, op := range []string{"==", "!=", "<=", ">=", "<", ">"} {
		if p.accept(op) {
			r := p.add()
			return &Expr{Op: "bin", Name: op, Args: []*Expr{l, r}}
		}
	}
	return l
}

func (p *parser) add() *Expr {
	l := p.mul()
	for {
		if p.accept("+") {
			l = &Expr{Op: "bin", Name: "+", Args: []*Expr{l, p.mul()}}
		} else if p.accept("-") {
			l = &Expr{Op: "bin", Name: "-", Args: []*Expr{l, p.mul()}}
		} else {
			return l
		}
	}
}

func (p *parser) mul() *Expr {
	l := p.unary()
	for {
		if p.accept("*") {
			l = &Expr{Op: "bin", Name: "*", Args: []*Expr{l, p.unary()}}
		} else if p.accept("/") {
			l = &Expr{Op: "bin", Name: "/", Args: []*Expr{l, p.unary()}}
		} else if p.accept("%") {
			l = &Expr{Op: "bin", Name: "%", Args: []*Expr{l, p.unary()}}
		} else {
			return l
		}
	}
}

func (p *parser) unary() *Expr {
	if p.accept("!") {
		return &Expr{Op: "un", Name: "!", Args: []*Expr{p.unary()}}
	}
	if p.accept("-") {
		return &Expr{Op: "un", Name: "-", Args: []*Expr{p.unary()}}
	}
	return p.postfix()
}

func (p *parser) postfix() *Expr {
	e := p.primary()
	for {
		if p.accept(".") {
			t := p.next()
			if t.kind != "id" {
				panic(fmt.Errorf("expected field name after '.' in %q", p.src))
			}
			e = &Expr{Op: "field", Name: t.s, Args: []*Expr{e}}
		} else if p.accept("[") {
			i := p.expr()
			p.expect("]")
			e = &Expr{Op: "index", Args: []*Expr{e, i}}
		} else if p.peek().kind == "op" && p.peek().s == "(" && e.Op == "ident" {
			p.next()
			c := &Expr{Op: "call", Name: e.Name}
			if !p.accept(")") {
				for {
					c.Args = append(c.Args, p.expr())
					if p.accept(")") {
						break
					}
					p.expect(",")
				}
			}
			e = c
		} else {
			return e
		}
	}
}

func (p *parser) primary() *Expr {
	t := p.next()
	switch t.kind {
	case "num":
		return &Expr{Op: "num", Name: t.s}
	case "str":
		return &Expr{Op: "str", Name: t.s}
	case "type":
		return &Expr{Op: "type", Name: t.s}
	case "id":
		if strings.HasPrefix(t.s, "$") {
			return &Expr{Op: "sitevar", Name: t.s}
		}
		return &Expr{Op: "ident", Name: t.s}
	case "op":
		if t.s == "(" {
			e := p.expr()
			p.expect(")")
			return e
		}
	}
	panic(fmt.Errorf("unexpected token %q in %q", t.s, p.src))
}

// ---------- contract files ----------

func splitTags(s string) (string, []string) {
	s = strings.TrimSpace(s)
	if strings.HasSuffix(s, "]") {
		if i := strings.LastIndex(s, " ["); i >= 0 {
			inner := s[i+2 : len(s)-1]
			ok := true
			for _, part := range strings.Split(inner, ",") {
				part = strings.TrimSpace(part)
				if len(part) < 3 || part[0] != 'C' {
					ok = false
				}
			}
			if ok {
				var tags []string
				for _, part := range strings.Split(inner, ",") {
					tags = append(tags, strings.TrimSpace(part))
				}
				return strings.TrimSpace(s[:i]), tags
			}
		}
	}
	return s, nil
}

func parseClause(s string) (Clause, error) {
	body, tags := splitTags(s)
	cl := Clause{Tags: tags, Src: body}
	// optional label "name: expr" (but not "::")
	if i := strings.Index(body, ":"); i > 0 && !strings.HasPrefix(body[i:], "::") {
		lab := strings.TrimSpace(body[:i])
		isId := lab != "" && lab != "forall" && lab != "exists"
		for _, r := range lab {
			if !(r == '_' || r == '-' || r == '.' || r >= 'a' && r <= 'z' || r >= 'A' && r <= 'Z' || r >= '0' && r <= '9') {
				isId = false
			}
		}
		if isId {
			cl.Label = lab
			body = strings.TrimSpace(body[i+1:])
		}
	}
	// optional "when <expr> :: " guard is written inline as implication; not special-cased
	e, err := ParseExpr(body)
	if err != nil {
		return cl, err
	}
	cl.E = e
	if cl.Label == "" {
		cl.Label = truncate(strings.ReplaceAll(body, " ", ""), 60)
	}
	return cl, nil
}

func (sf *SpecFile) ParseFile(path string) error {
	data, err := os.ReadFile(path)
	if err != nil {
		return err
	}
	return sf.ParseText(path, string(data))
}

func (sf *SpecFile) ParseText(path, text string) error {
	var cur *Contract
	lines := strings.Split(text, "\n")
	// join continuation lines: "//@ ..." followed by "//@+ more"
	var joined []string
	var lineNos []int
	for i, ln := range lines {
		t := strings.TrimSpace(ln)
		if strings.HasPrefix(t, "//@+") {
			if len(joined) > 0 {
				joined[len(joined)-1] += " " + strings.TrimSpace(t[4:])
			}
			continue
		}
		if strings.HasPrefix(t, "//@") {
			joined = append(joined, strings.TrimSpace(t[3:]))
			lineNos = append(lineNos, i+1)
		}
	}
	for idx, ln := range joined {
		if ln == "" || strings.HasPrefix(ln, "--") {
			continue
		}
		if i := strings.Index(ln, " -- "); i >= 0 {
			ln = strings.TrimSpace(ln[:i])
		}
		errf := func(format string, a ...interface{}) error {
			return fmt.Errorf("%s:%d: %s", path, lineNos[idx], fmt.Sprintf(format, a...))
		}
		word, rest := ln, ""
		if i := strings.IndexAny(ln, " \t"); i >= 0 {
			word, rest = ln[:i], strings.TrimSpace(ln[i+1:])
		}
		switch word {
		case "property":
			// property C10 units: a, b, c
			parts := strings.SplitN(rest, "units:", 2)
			if len(parts) != 2 {
				return errf("property line needs 'units:'")
			}
			id := strings.TrimSpace(parts[0])
			pd := sf.Properties[id]
			if pd == nil {
				pd = &PropertyDecl{ID: id}
				sf.Properties[id] = pd
			}
			for _, u := range strings.Split(parts[1], ",") {
				u = strings.TrimSpace(u)
				if u != "" {
					pd.Units = append(pd.Units, u)
				}
			}
			cur = nil
		case "core":
			// core C01 C02: f, g -- f and g are units of each listed property and ALL their clauses count for it
			parts := strings.SplitN(rest, ":", 2)
			if len(parts) != 2 {
				return errf("core needs 'props: units'")
			}
			for _, id := range strings.Fields(strings.ReplaceAll(parts[0], ",", " ")) {
				pd := sf.Properties[id]
				if pd == nil {
					pd = &PropertyDecl{ID: id}
					sf.Properties[id] = pd
				}
				if pd.Core == nil {
					pd.Core = map[string]bool{}
				}
				for _, u := range strings.Split(parts[1], ",") {
					if u = strings.TrimSpace(u); u != "" {
						pd.Core[u] = true
					}
				}
			}
			cur = nil
		case "sweep":
			// sweep C14 : the module-wide rules (global ...) tagged with the property are also checked in every other
			// function of the module, including functions that did not exist when the contracts were written
			for _, id := range strings.Fields(strings.ReplaceAll(rest, ",", " ")) {
				pd := sf.Properties[id]
				if pd == nil {
					pd = &PropertyDecl{ID: id}
					sf.Properties[id] = pd
				}
				pd.Sweep = true
			}
			cur = nil
		case "specfn":
			// specfn NumIn(U) Int
			i := strings.Index(rest, "(")
			j := strings.Index(rest, ")")
			if i < 0 || j < i {
				return errf("bad specfn")
			}
			name := strings.TrimSpace(rest[:i])
			var args []string
			for _, a := range strings.Split(rest[i+1:j], ",") {
				a = strings.TrimSpace(a)
				if a != "" {
					args = append(args, a)
				}
			}
			sf.SpecFns[name] = &Decl{Name: name, Args: args, Res: strings.TrimSpace(rest[j+1:])}
			cur = nil
		case "chaninv":
			// chaninv wsConn.readError: $val != nil [tags]
			parts := strings.SplitN(rest, ":", 2)
			if len(parts) != 2 {
				return errf("bad chaninv")
			}
			cl, err := parseClause(strings.TrimSpace(parts[1]))
			if err != nil {
				return errf("%v", err)
			}
			sf.ChanInvs[strings.TrimSpace(parts[0])] = &cl
			cur = nil
		case "sharedtype":
			sf.SharedTypes[strings.TrimSpace(rest)] = true
			cur = nil
		case "immutable":
			for _, f := range strings.Split(rest, ",") {
				if f = strings.TrimSpace(f); f != "" {
					sf.Immutable[f] = true
				}
			}
			cur = nil
		case "alias":
			parts := strings.SplitN(rest, "=", 2)
			if len(parts) != 2 {
				return errf("bad alias")
			}
			sf.Aliases[strings.TrimSpace(parts[0])] = strings.TrimSpace(parts[1])
			cur = nil
		case "ghostmap":
			// ghostmap cancelled(U) Bool
			i := strings.Index(rest, "(")
			j := strings.Index(rest, ")")
			if i < 0 || j < i {
				return errf("bad ghostmap")
			}
			name := strings.TrimSpace(rest[:i])
			sf.GhostMaps[name] = &Decl{Name: name, Args: []string{strings.TrimSpace(rest[i+1 : j])}, Res: strings.TrimSpace(rest[j+1:])}
			cur = nil
		case "pred":
			// pred name(a,b) := expr
			i := strings.Index(rest, "(")
			j := strings.Index(rest, ")")
			k := strings.Index(rest, ":=")
			if i < 0 || j < i || k < j {
				return errf("bad pred")
			}
			pd := &PredDecl{Name: strings.TrimSpace(rest[:i]), Src: rest}
			for _, a := range strings.Split(rest[i+1:j], ",") {
				a = strings.TrimSpace(a)
				if a != "" {
					pd.Params = append(pd.Params, a)
				}
			}
			e, err := ParseExpr(strings.TrimSpace(rest[k+2:]))
			if err != nil {
				return errf("%v", err)
			}
			pd.Body = e
			sf.Preds[pd.Name] = pd
			cur = nil
		case "guards":
			// guards wsConn.inflightLk: wsConn.inflight, wsConn.x [inv <expr>] [tags]
			body, tags := splitTags(rest)
			parts := strings.SplitN(body, ":", 2)
			if len(parts) != 2 {
				return errf("bad guards")
			}
			g := &GuardDecl{Lock: strings.TrimSpace(parts[0]), Tags: tags}
			fl := parts[1]
			if i := strings.Index(fl, " inv "); i >= 0 {
				cl, err := parseClause(strings.TrimSpace(fl[i+5:]))
				if err != nil {
					return errf("%v", err)
				}
				g.Inv = &cl
				fl = fl[:i]
			}
			for _, f := range strings.Split(fl, ",") {
				f = strings.TrimSpace(f)
				if f != "" {
					g.Fields = append(g.Fields, f)
				}
			}
			sf.Guards = append(sf.Guards, g)
			cur = nil
		case "lockorder":
			parts := strings.Split(rest, "<")
			for i := 0; i+1 < len(parts); i++ {
				sf.LockOrder = append(sf.LockOrder, [2]string{strings.TrimSpace(parts[i]), strings.TrimSpace(parts[i+1])})
			}
			cur = nil
		case "unsync":
			parts := strings.SplitN(rest, ":", 2)
			reason := ""
			if len(parts) == 2 {
				reason = strings.TrimSpace(parts[1])
			}
			sf.Unsync[strings.TrimSpace(parts[0])] = reason
			cur = nil
		case "assume-text":
			sf.Assumes = append(sf.Assumes, rest)
		case "axiom":
			cl, err := parseClause(rest)
			if err != nil {
				return errf("%v", err)
			}
			sf.Axioms = append(sf.Axioms, cl)
			cur = nil
		case "static":
			// static label: expr [tags] -- a contract on declarations (constants, types, struct tags), decided without any code path
			cl, err := parseClause(rest)
			if err != nil {
				return errf("%v", err)
			}
			sf.Statics = append(sf.Statics, StaticClause{Cl: cl, File: path})
			cur = nil
		case "lemma":
			cl, err := parseClause(rest)
			if err != nil {
				return errf("%v", err)
			}
			sf.Lemmas = append(sf.Lemmas, cl)
			cur = nil
		case "func", "extern", "functype":
			cur = &Contract{Func: rest, Extern: word == "extern", Loops: map[int][]Clause{}, File: path, Line: lineNos[idx], Ghosts: map[string]string{}, GhostInit: map[string]string{}}
			if word == "extern" {
				sf.Externs = append(sf.Externs, cur)
			} else if word == "functype" {
				sf.FuncTypes[rest] = cur
			} else {
				if _, dup := sf.Contracts[rest]; dup {
					return errf("duplicate contract for %s", rest)
				}
				sf.Contracts[rest] = cur
				sf.Order = append(sf.Order, rest)
			}
		case "global", "global-forbid":
			cur = nil
			r, err := parseSiteRule(strings.TrimPrefix(rest, "at "))
			if err != nil {
				return errf("%v", err)
			}
			r.Optional = word == "global-forbid"
			r.IsGlobal = true
			sf.Globals = append(sf.Globals, r)
		default:
			if cur == nil {
				return errf("clause %q outside a func/extern block", word)
			}
			switch word {
			case "requires":
				cl, err := parseClause(rest)
				if err != nil {
					return errf("%v", err)
				}
				cur.Requires = append(cur.Requires, cl)
			case "ensures":
				cl, err := parseClause(rest)
				if err != nil {
					return errf("%v", err)
				}
				cur.Ensures = append(cur.Ensures, cl)
			case "modifies":
				cur.HasMod = true
				body, _ := splitTags(rest)
				for _, f := range strings.Split(body, ",") {
					f = strings.TrimSpace(f)
					if f != "" && f != "nothing" {
						cur.Modifies = append(cur.Modifies, f)
					}
				}
			case "nopanic":
				_, tags := splitTags(" " + rest)
				cur.HasNoPanic = true
				cur.NoPanic = tags
			case "may_panic":
				cur.MayPanic = true
			case "inline":
				cur.Inline = true
			case "initphase":
				cur.InitPhase = true
			case "safety":
				cur.Safety = true
			case "nosafety":
				cur.NoSafety = true
			case "pure":
				cur.Pure = rest
			case "havoc":
				for _, f := range strings.Split(rest, ",") {
					cur.Havoc = append(cur.Havoc, strings.TrimSpace(f))
				}
			case "entrylocks":
				for _, f := range strings.Split(rest, ",") {
					cur.EntryLocks = append(cur.EntryLocks, strings.TrimSpace(f))
				}
			case "update":
				u, err := parseUpdate(rest)
				if err != nil {
					return errf("%v", err)
				}
				cur.Updates = append(cur.Updates, u)
			case "ghost":
				// ghost name : Sort [= init]
				parts := strings.SplitN(rest, ":", 2)
				if len(parts) != 2 {
					return errf("bad ghost")
				}
				name := strings.TrimSpace(parts[0])
				so := strings.TrimSpace(parts[1])
				init := ""
				if i := strings.Index(so, "="); i >= 0 {
					init = strings.TrimSpace(so[i+1:])
					so = strings.TrimSpace(so[:i])
				}
				cur.Ghosts[name] = so
				cur.GhostInit[name] = init
			case "loop":
				// loop 1 invariant label: expr [tags]
				var n int
				var kw string
				if _, err := fmt.Sscanf(rest, "%d %s", &n, &kw); err != nil || kw != "invariant" {
					return errf("bad loop clause (want: loop <n> invariant <expr>)")
				}
				i := strings.Index(rest, "invariant")
				cl, err := parseClause(strings.TrimSpace(rest[i+len("invariant"):]))
				if err != nil {
					return errf("%v", err)
				}
				cur.Loops[n] = append(cur.Loops[n], cl)
			case "at":
				r, err := parseSiteRule(rest)
				if err != nil {
					return errf("%v", err)
				}
				r.Owner = cur.Func
				cur.Sites = append(cur.Sites, r)
			default:
				return errf("unknown clause %q", word)
			}
		}
	}
	return nil
}

// parseSiteRule parses: <sel> [<pattern>]: <action> ...
//
//	at call sendRequest: assert label: expr [tags]
//	at dyncall: let x = expr
//	at call time.Sleep: set slept = true
func parseSiteRule(s string) (*SiteRule, error) {
	i := strings.Index(s, ": ")
	if i < 0 {
		return nil, fmt.Errorf("site rule needs ': ' in %q", s)
	}
	head := strings.Fields(s[:i])
	body := strings.TrimSpace(s[i+2:])
	if len(head) == 0 {
		return nil, fmt.Errorf("empty site selector in %q", s)
	}
	r := &SiteRule{Sel: head[0]}
	if len(head) > 1 {
		r.Pat = strings.Join(head[1:], " ")
	}
	word, rest := body, ""
	if j := strings.IndexAny(body, " \t"); j >= 0 {
		word, rest = body[:j], strings.TrimSpace(body[j+1:])
	}
	r.Action = word
	switch word {
	case "assert", "assume":
		cl, err := parseClause(rest)
		if err != nil {
			return nil, err
		}
		r.Cl = cl
	case "forbid":
		body, tags := splitTags(" " + rest)
		e, _ := ParseExpr("false")
		r.Action = "assert"
		lab := strings.TrimSpace(body)
		if lab == "" {
			lab = "forbidden:" + r.Sel + ":" + r.Pat
		}
		r.Cl = Clause{Label: lab, E: e, Src: "false", Tags: tags}
	case "update":
		u, err := parseUpdate(rest)
		if err != nil {
			return nil, err
		}
		r.Upd = u
	case "let", "set":
		k := strings.Index(rest, "=")
		if k < 0 {
			return nil, fmt.Errorf("let/set needs '=' in %q", s)
		}
		r.Var = strings.TrimSpace(rest[:k])
		e, err := ParseExpr(strings.TrimSpace(rest[k+1:]))
		if err != nil {
			return nil, err
		}
		r.Cl = Clause{E: e, Src: rest}
	case "inc":
		r.Var = strings.TrimSpace(rest)
	default:
		return nil, fmt.Errorf("unknown site action %q in %q", word, s)
	}
	return r, nil
}

// parseUpdate parses: m(keyexpr) := valexpr [when cond]
func parseUpdate(s string) (*GhostUpdate, error) {
	i := strings.Index(s, ":=")
	if i < 0 {
		return nil, fmt.Errorf("update needs ':=' in %q", s)
	}
	lhs := strings.TrimSpace(s[:i])
	rhs := strings.TrimSpace(s[i+2:])
	u := &GhostUpdate{}
	if w := strings.Index(rhs, " when "); w >= 0 {
		c, err := ParseExpr(strings.TrimSpace(rhs[w+6:]))
		if err != nil {
			return nil, err
		}
		u.When = c
		rhs = strings.TrimSpace(rhs[:w])
	}
	l, err := ParseExpr(lhs)
	if err != nil {
		return nil, err
	}
	if l.Op != "call" || len(l.Args) != 1 {
		return nil, fmt.Errorf("update target must be m(key) in %q", s)
	}
	u.Map = l.Name
	u.Key = l.Args[0]
	v, err := ParseExpr(rhs)
	if err != nil {
		return nil, err
	}
	u.Val = v
	return u, nil
}

// StaticClause is a contract on declarations; File selects the package whose scope resolves its names.
type StaticClause struct {
	Cl   Clause
	File string
}
