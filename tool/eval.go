package main

// Evaluation of specification expressions against a symbolic state.

import (
	"fmt"
	"go/ast"
	"go/constant"
	goparser "go/parser"
	"go/token"
	"go/types"
	"golang.org/x/tools/go/ssa"
	"reflect"
	"sort"
	"strings"
)

type Env struct {
	e        *Engine
	st       *State
	old      *State
	fr       *Frame
	names    map[string]Val // explicit bindings (call-site parameter names, pred params)
	site     map[string]Val
	result   *Val
	bound    map[string]Val
	pkg      *types.Package
	inOld    bool
	callSite bool // evaluating a callee's contract at a call site: the callee's ghost state is not visible
}

func (env *Env) cur() *State {
	if env.inOld && env.old != nil {
		return env.old
	}
	return env.st
}

type evalErr struct{ msg string }

func (e evalErr) Error() string { return e.msg }

func efail(format string, a ...interface{}) {
	panic(evalErr{fmt.Sprintf(format, a...)})
}

// specVal builds a value without a Go type.
func specVal(term, sort string) Val {
	return Val{T: nil, L: []string{term}, R: nil}.withSort(sort)
}

var specSorts = map[string]string{} // not used; sorts are tracked in sortOf via side table

type sortedVal struct{}

// We keep the sort of untyped single-leaf values in a side map keyed by term text (cheap and adequate).
var termSort = map[string]string{}

func (v Val) withSort(s string) Val {
	if len(v.L) == 1 {
		termSort[v.L[0]] = s
	}
	return v
}

func (e *Engine) sortOf(v Val) string {
	if v.T != nil {
		ls := e.flatten(v.T)
		if len(ls) == 1 {
			return ls[0].Sort
		}
		return ""
	}
	if len(v.L) == 1 {
		if s, ok := termSort[v.L[0]]; ok {
			return s
		}
		t := v.L[0]
		if t == "true" || t == "false" {
			return SBool
		}
		if _, ok := intLit(t); ok {
			return SInt
		}
		if strings.Contains(t, ".") && !strings.ContainsAny(t, "()!") {
			return SReal
		}
	}
	return ""
}

func (e *Engine) Eval(env *Env, x *Expr) (v Val, err error) {
	defer func() {
		if r := recover(); r != nil {
			if ee, ok := r.(evalErr); ok {
				err = fmt.Errorf("%s (in %q)", ee.msg, x.Src)
				return
			}
			panic(r)
		}
	}()
	env.e = e
	return env.eval(x), nil
}

func (e *Engine) EvalBool(env *Env, x *Expr) (string, error) {
	v, err := e.Eval(env, x)
	if err != nil {
		return "", err
	}
	if len(v.L) != 1 {
		return "", fmt.Errorf("expression %q is not boolean (has %d leaves)", x.Src, len(v.L))
	}
	return v.L[0], nil
}

func boolVal(t string) Val { return specVal(t, SBool) }
func intVal(t string) Val  { return specVal(t, SInt) }

func (env *Env) eval(x *Expr) Val {
	e := env.e
	switch x.Op {
	case "num":
		if strings.Contains(x.Name, ".") {
			return specVal(x.Name, SReal)
		}
		return intVal(x.Name)
	case "str":
		return Val{T: types.Typ[types.String], L: []string{e.strConst(x.Name)}}
	case "type":
		return specVal(e.typeConst(env.resolveType(x.Name)), SU)
	case "sitevar":
		if v, ok := env.site[x.Name]; ok {
			return v
		}
		efail("site variable %s not available here", x.Name)
	case "ident":
		return env.ident(x.Name)
	case "field":
		base := env.eval(x.Args[0])
		return env.field(base, x.Name)
	case "index":
		base := env.eval(x.Args[0])
		idx := env.eval(x.Args[1])
		return env.index(base, idx)
	case "un":
		a := env.eval(x.Args[0])
		if x.Name == "!" {
			return boolVal(mkNot(a.term()))
		}
		if e.sortOf(a) == SReal {
			return specVal("(- "+a.term()+")", SReal)
		}
		if v, ok := intLit(a.term()); ok {
			return intVal(mkInt(-v))
		}
		return intVal("(- " + a.term() + ")")
	case "bin":
		return env.binop(x)
	case "forall", "exists":
		saved := map[string]Val{}
		var decls []string
		for _, v := range x.Vars {
			if old, ok := env.bound[v]; ok {
				saved[v] = old
			}
			e.nq++
			n := fmt.Sprintf("%s!q%d", v, e.nq)
			if env.bound == nil {
				env.bound = map[string]Val{}
			}
			env.bound[v] = specVal(n, x.Sort)
			decls = append(decls, fmt.Sprintf("(%s %s)", n, x.Sort))
		}
		body := env.eval(x.Args[0])
		for _, v := range x.Vars {
			delete(env.bound, v)
			if old, ok := saved[v]; ok {
				env.bound[v] = old
			}
		}
		if body.term() == "true" {
			return boolVal("true")
		}
		return boolVal(fmt.Sprintf("(%s (%s) %s)", x.Op, strings.Join(decls, " "), body.term()))
	case "call":
		return env.call(x)
	}
	efail("cannot evaluate %s", x.Op)
	return Val{}
}

func (env *Env) resolveType(s string) types.Type {
	x, err := goparser.ParseExpr(s)
	if err != nil {
		efail("cannot parse type %q: %v", s, err)
	}
	return env.typeFromAST(x, s)
}

func (env *Env) typeFromAST(x ast.Expr, src string) types.Type {
	e := env.e
	switch t := x.(type) {
	case *ast.Ident:
		if o := types.Universe.Lookup(t.Name); o != nil {
			if tn, ok := o.(*types.TypeName); ok {
				return tn.Type()
			}
		}
		pkgs := []*types.Package{}
		if env.pkg != nil {
			pkgs = append(pkgs, env.pkg)
		}
		pkgs = append(pkgs, e.repoPkgs...)
		for _, p := range pkgs {
			if o := p.Scope().Lookup(t.Name); o != nil {
				if tn, ok := o.(*types.TypeName); ok {
					return tn.Type()
				}
			}
		}
		for _, p := range pkgs {
			if nn, ok := objOldToCur[objKey(p, t.Name)]; ok {
				if o := p.Scope().Lookup(nn[strings.LastIndex(nn, ".")+1:]); o != nil {
					if tn, ok := o.(*types.TypeName); ok {
						return tn.Type()
					}
				}
			}
		}
	case *ast.SelectorExpr:
		if id, ok := t.X.(*ast.Ident); ok {
			for _, p := range e.prog.AllPackages() {
				if p.Pkg.Name() == id.Name {
					if o := p.Pkg.Scope().Lookup(t.Sel.Name); o != nil {
						if tn, ok := o.(*types.TypeName); ok {
							return tn.Type()
						}
					}
				}
			}
		}
	case *ast.StarExpr:
		return types.NewPointer(env.typeFromAST(t.X, src))
	case *ast.ArrayType:
		if t.Len == nil {
			return types.NewSlice(env.typeFromAST(t.Elt, src))
		}
	case *ast.MapType:
		return types.NewMap(env.typeFromAST(t.Key, src), env.typeFromAST(t.Value, src))
	case *ast.InterfaceType:
		if t.Methods == nil || len(t.Methods.List) == 0 {
			return types.NewInterfaceType(nil, nil)
		}
	case *ast.ParenExpr:
		return env.typeFromAST(t.X, src)
	}
	efail("cannot resolve type %q", src)
	return nil
}

func (env *Env) ident(name string) Val {
	e := env.e
	switch name {
	case "true", "false":
		return boolVal(name)
	case "nil":
		return specVal("nil", SU)
	case "result":
		if env.result == nil {
			efail("result not available here")
		}
		return *env.result
	}
	if v, ok := env.bound[name]; ok {
		return v
	}
	if v, ok := env.names[name]; ok {
		return v
	}
	if strings.HasPrefix(name, "result") && env.result != nil {
		var i int
		if _, err := fmt.Sscanf(name, "result%d", &i); err == nil {
			if tt, ok := env.result.T.(*types.Tuple); ok && i < tt.Len() {
				off, n := e.tupleOffset(tt, i)
				return env.result.sub(tt.At(i).Type(), off, n)
			}
			if i == 0 {
				return *env.result
			}
		}
	}
	st := env.cur()
	if st != nil && !env.callSite {
		if v, ok := st.lets[name]; ok {
			return v
		}
		if g, ok := st.ghost[name]; ok {
			return specVal(g, st.sort[name])
		}
	}
	if env.fr != nil {
		for fr := env.fr; fr != nil; fr = fr.parent {
			if env.inOld {
				// entry values of parameters
				for i, p := range fr.fn.Params {
					if (p.Name() == name || e.vname(fr.fn, p.Name()) == name) && i < len(fr.params) {
						return fr.params[i]
					}
				}
			}
			if i := e.entryParam(fr.fn, name); i >= 0 && i < len(fr.params) {
				return fr.params[i]
			}
			if c, ok := fr.names[name]; ok {
				if _, live := st.cells[c]; !live && !c.arr {
					if v, ok := e.rangeIntAlias(st, fr, name); ok {
						return v
					}
					efail("variable %q is not declared on this path", name)
				}
				return e.load(st, &Loc{Kind: LCell, Cell: c, Root: c.T, T: c.T})
			}
			if l, ok := fr.heapNames[name]; ok {
				return e.load(st, l)
			}
			if _, known := fr.names[name]; !known {
				if v, ok := e.rangeIntAlias(st, fr, name); ok {
					return v
				}
			}
			if env.inOld || len(fr.names) == 0 {
				for i, p := range fr.fn.Params {
					if (p.Name() == name || e.vname(fr.fn, p.Name()) == name) && i < len(fr.params) {
						return fr.params[i]
					}
				}
			}
			if name == "recv" && len(fr.params) > 0 {
				return fr.params[0]
			}
		}
	}
	// package level
	pkgs := []*types.Package{}
	if env.pkg != nil {
		pkgs = append(pkgs, env.pkg)
	}
	pkgs = append(pkgs, e.repoPkgs...)
	for _, p := range pkgs {
		obj := p.Scope().Lookup(name)
		if obj == nil {
			if nn, ok := objOldToCur[objKey(p, name)]; ok {
				obj = p.Scope().Lookup(nn[strings.LastIndex(nn, ".")+1:])
			}
		}
		if obj == nil {
			continue
		}
		switch o := obj.(type) {
		case *types.Const:
			return e.constVal(o.Type(), o.Val())
		case *types.Var:
			g := shortPkg(p.Path()) + "." + o.Name()
			return e.load(st, &Loc{Kind: LGlobal, Glob: g, Root: o.Type(), T: o.Type()})
		}
	}
	efail("unknown identifier %q", name)
	return Val{}
}

func (e *Engine) constVal(t types.Type, cv constant.Value) Val {
	if cv == nil {
		return e.zeroVal(t)
	}
	switch cv.Kind() {
	case constant.Bool:
		if constant.BoolVal(cv) {
			return Val{T: t, L: []string{"true"}}
		}
		return Val{T: t, L: []string{"false"}}
	case constant.String:
		return Val{T: t, L: []string{e.strConst(constant.StringVal(cv))}}
	case constant.Int:
		if b, ok := t.Underlying().(*types.Basic); ok && b.Info()&types.IsFloat != 0 {
			f, _ := constant.Float64Val(cv)
			return Val{T: t, L: []string{realLit(f)}}
		}
		if i, ok := constant.Int64Val(cv); ok {
			return Val{T: t, L: []string{mkInt(i)}}
		}
		return Val{T: t, L: []string{cv.ExactString()}}
	case constant.Float:
		f, _ := constant.Float64Val(cv)
		if b, ok := t.Underlying().(*types.Basic); ok && b.Info()&types.IsInteger != 0 {
			return Val{T: t, L: []string{mkInt(int64(f))}}
		}
		return Val{T: t, L: []string{realLit(f)}}
	}
	return e.zeroVal(t)
}

func realLit(f float64) string {
	s := fmt.Sprintf("%.10f", f)
	if f < 0 {
		return "(- " + s[1:] + ")"
	}
	return s
}

func (env *Env) field(base Val, name string) Val {
	e := env.e
	if base.T == nil {
		efail("field .%s of untyped spec value", name)
	}
	st := env.cur()
	t := base.T
	if p, ok := t.Underlying().(*types.Pointer); ok {
		loc := e.ptrLoc(base)
		stt, ok := p.Elem().Underlying().(*types.Struct)
		if !ok {
			efail("field .%s of pointer to non-struct %v", name, t)
		}
		for i := 0; i < stt.NumFields(); i++ {
			if fieldName(stt.Field(i)) == name {
				off, _ := e.fieldOffset(stt, i)
				return e.load(st, subLoc(loc, off, stt.Field(i).Type()))
			}
		}
		// promoted through embedded pointer/struct
		for i := 0; i < stt.NumFields(); i++ {
			if stt.Field(i).Embedded() {
				off, _ := e.fieldOffset(stt, i)
				inner := e.load(st, subLoc(loc, off, stt.Field(i).Type()))
				if v, ok := env.tryField(inner, name); ok {
					return v
				}
			}
		}
		efail("no field %s in %v", name, p.Elem())
	}
	if stt, ok := t.Underlying().(*types.Struct); ok {
		for i := 0; i < stt.NumFields(); i++ {
			if fieldName(stt.Field(i)) == name {
				off, n := e.fieldOffset(stt, i)
				return base.sub(stt.Field(i).Type(), off, n)
			}
		}
		for i := 0; i < stt.NumFields(); i++ {
			if stt.Field(i).Embedded() {
				off, n := e.fieldOffset(stt, i)
				if v, ok := env.tryField(base.sub(stt.Field(i).Type(), off, n), name); ok {
					return v
				}
			}
		}
		efail("no field %s in %v", name, t)
	}
	if _, ok := t.Underlying().(*types.Slice); ok {
		switch name {
		case "base":
			return specVal(base.L[0], SU)
		case "off":
			return intVal(base.L[1])
		}
	}
	efail("field .%s of non-struct %v", name, t)
	return Val{}
}

func (env *Env) tryField(base Val, name string) (v Val, ok bool) {
	defer func() {
		if r := recover(); r != nil {
			if _, isE := r.(evalErr); isE {
				ok = false
				return
			}
			panic(r)
		}
	}()
	return env.field(base, name), true
}

func (env *Env) index(base, idx Val) Val {
	e := env.e
	st := env.cur()
	if base.T == nil {
		efail("index of untyped value")
	}
	switch u := base.T.Underlying().(type) {
	case *types.Slice:
		loc := &Loc{Kind: LElem, Obj: base.L[0], Root: u.Elem(), Idx: mkAdd(base.L[1], idx.term()), T: u.Elem()}
		return e.load(st, loc)
	case *types.Map:
		return e.mapValue(st, base, Val{T: u.Key(), L: idx.L})
	case *types.Basic:
		if isString(base.T) {
			e.smt.Declare("strat", []string{SU, SInt}, SInt)
			return intVal(mkApp("strat", base.term(), idx.term()))
		}
	}
	efail("cannot index %v", base.T)
	return Val{}
}

func (env *Env) binop(x *Expr) Val {
	e := env.e
	switch x.Name {
	case "&&":
		a := env.eval(x.Args[0])
		if a.term() == "false" {
			return boolVal("false")
		}
		b := env.eval(x.Args[1])
		return boolVal(mkAnd(a.term(), b.term()))
	case "||":
		a := env.eval(x.Args[0])
		if a.term() == "true" {
			return boolVal("true")
		}
		b := env.eval(x.Args[1])
		return boolVal(mkOr(a.term(), b.term()))
	case "==>":
		a := env.eval(x.Args[0])
		if a.term() == "false" {
			return boolVal("true")
		}
		b := env.eval(x.Args[1])
		return boolVal(mkImp(a.term(), b.term()))
	}
	a := env.eval(x.Args[0])
	b := env.eval(x.Args[1])
	switch x.Name {
	case "==", "!=":
		var t string
		if len(a.L) != len(b.L) {
			// slice/nil comparison
			if len(b.L) == 1 && b.L[0] == "nil" && len(a.L) == 4 {
				t = mkEq(a.L[0], "nil")
			} else if len(a.L) == 1 && a.L[0] == "nil" && len(b.L) == 4 {
				t = mkEq(b.L[0], "nil")
			} else {
				efail("comparison of values with %d and %d leaves", len(a.L), len(b.L))
			}
		} else {
			var cs []string
			for i := range a.L {
				l, r := a.L[i], b.L[i]
				l, r = env.coerce(a, l, b, r)
				cs = append(cs, mkEq(l, r))
			}
			t = mkAnd(cs...)
		}
		if x.Name == "!=" {
			t = mkNot(t)
		}
		return boolVal(t)
	case "<", "<=", ">", ">=":
		l, r := env.coerce(a, a.term(), b, b.term())
		if e.sortOf(a) == SReal || e.sortOf(b) == SReal {
			return boolVal("(" + x.Name + " " + l + " " + r + ")")
		}
		return boolVal(mkCmp(x.Name, l, r))
	case "+", "-", "*", "/", "%":
		l, r := env.coerce(a, a.term(), b, b.term())
		isReal := e.sortOf(a) == SReal || e.sortOf(b) == SReal
		so := SInt
		if isReal {
			so = SReal
		}
		var t string
		switch x.Name {
		case "+":
			if isReal {
				t = "(+ " + l + " " + r + ")"
			} else {
				t = mkAdd(l, r)
			}
		case "-":
			if isReal {
				t = "(- " + l + " " + r + ")"
			} else {
				t = mkSub(l, r)
			}
		case "*":
			t = "(* " + l + " " + r + ")"
		case "/":
			if isReal {
				t = "(/ " + l + " " + r + ")"
			} else {
				t = "(div " + l + " " + r + ")"
			}
		case "%":
			t = "(mod " + l + " " + r + ")"
		}
		return specVal(t, so)
	}
	efail("unknown operator %s", x.Name)
	return Val{}
}

// coerce lifts integer literals to reals when the other operand is real.
func (env *Env) coerce(a Val, l string, b Val, r string) (string, string) {
	e := env.e
	sa, sb := e.sortOf(a), e.sortOf(b)
	if sa == SReal && sb != SReal {
		if _, ok := intLit(r); ok {
			r = toRealLit(r)
		} else if sb == SInt {
			r = "(to_real " + r + ")"
		}
	}
	if sb == SReal && sa != SReal {
		if _, ok := intLit(l); ok {
			l = toRealLit(l)
		} else if sa == SInt {
			l = "(to_real " + l + ")"
		}
	}
	return l, r
}

func toRealLit(i string) string {
	if strings.HasPrefix(i, "(- ") {
		return "(- " + i[3:len(i)-1] + ".0)"
	}
	return i + ".0"
}

func (env *Env) call(x *Expr) Val {
	e := env.e
	st := env.cur()
	switch x.Name {
	case "old":
		if env.old == nil {
			efail("old() not available here")
		}
		saved := env.inOld
		env.inOld = true
		v := env.eval(x.Args[0])
		env.inOld = saved
		return v
	case "len", "cap":
		a := env.eval(x.Args[0])
		if a.T == nil {
			efail("len of untyped value")
		}
		switch a.T.Underlying().(type) {
		case *types.Slice:
			if x.Name == "len" {
				return intVal(a.L[2])
			}
			return intVal(a.L[3])
		case *types.Map:
			e.smt.Declare("maplen", []string{SU}, SInt)
			return intVal(mkApp("maplen", a.term()))
		case *types.Chan:
			e.smt.Declare("chanlen", []string{SU}, SInt)
			return intVal(mkApp("chanlen", a.term()))
		}
		if isString(a.T) {
			return intVal(mkApp("strlen", a.term()))
		}
		efail("len of %v", a.T)
	case "typeof":
		a := env.eval(x.Args[0])
		return specVal(mkApp("typeof", a.term()), SU)
	case "present":
		m := env.eval(x.Args[0])
		k := env.eval(x.Args[1])
		mt, ok := m.T.Underlying().(*types.Map)
		if !ok {
			efail("present() on non-map")
		}
		return boolVal(mkAnd(mkNot(mkEq(m.term(), "nil")), e.mapPresent(st, m, Val{T: mt.Key(), L: k.L})))
	case "held":
		a := env.eval(x.Args[0])
		// argument is a mutex value reached through a field: we need its location; re-evaluate as location
		loc := env.locOf(x.Args[0])
		_ = a
		if loc == nil {
			efail("held(): cannot resolve lock location")
		}
		if st.holds(loc.key(e)) {
			return boolVal("true")
		}
		return boolVal("false")
	case "heldclass":
		if x.Args[0].Op != "str" {
			efail("heldclass needs a string literal")
		}
		if st.holdsClass(x.Args[0].Name) {
			return boolVal("true")
		}
		return boolVal("false")
	case "jsontag":
		// jsontag(#T, "Field"): the json struct tag of the field (a declaration fact)
		if len(x.Args) != 2 || x.Args[0].Op != "type" || x.Args[1].Op != "str" {
			efail("jsontag(#T, \"Field\")")
		}
		t := env.resolveType(x.Args[0].Name)
		stt, ok := t.Underlying().(*types.Struct)
		if !ok {
			efail("jsontag: %s is not a struct type", x.Args[0].Name)
		}
		for i := 0; i < stt.NumFields(); i++ {
			if fieldName(stt.Field(i)) == x.Args[1].Name {
				tag := reflect.StructTag(stt.Tag(i)).Get("json")
				return Val{T: types.Typ[types.String], L: []string{e.strConst(tag)}}
			}
		}
		efail("jsontag: %s has no field %s", x.Args[0].Name, x.Args[1].Name)
		return Val{}
	case "fieldof":
		// fieldof(p): the field class ("T.f") a pointer points at, "" if it is not a field of a module struct
		a := env.eval(x.Args[0])
		cls := ""
		if r := a.ref(0); r != nil && r.Loc != nil {
			cls = e.fieldClass(r.Loc)
		}
		return Val{T: types.Typ[types.String], L: []string{e.strConst(cls)}}
	case "infunc":
		// infunc("f|g"): the site lies in f or g (or in code inlined into them)
		if len(x.Args) != 1 || x.Args[0].Op != "str" {
			efail("infunc needs a string literal")
		}
		for f := env.fr; f != nil; f = f.parent {
			if matchName(shortName(f.fn.String()), x.Args[0].Name) {
				return boolVal("true")
			}
		}
		return boolVal("false")
	case "nolocks":
		if len(st.locks) == 0 {
			return boolVal("true")
		}
		return boolVal("false")
	case "calls":
		if env.callSite {
			efail("calls() refers to the callee's own activation")
		}
		var n string
		switch x.Args[0].Op {
		case "ident", "str":
			n = x.Args[0].Name
		default:
			efail("calls() needs a function name")
		}
		if g, ok := st.ghost["calls:"+n]; ok {
			return intVal(g)
		}
		return intVal("0")
	case "boxedas":
		// boxedas(x, #T): x was (syntactically) produced by converting a value of static type T to an interface
		a := env.eval(x.Args[0])
		if x.Args[1].Op != "type" {
			efail("boxedas(x, #T)")
		}
		t := env.resolveType(x.Args[1].Name)
		if r := a.ref(0); r != nil && r.Box != nil && types.Identical(r.Box.T, t) {
			return boolVal("true")
		}
		return boolVal("false")
	case "isfreshchan":
		if env.callSite {
			efail("isfreshchan() refers to the callee's own activation")
		}
		a := env.eval(x.Args[0])
		for _, id := range st.freshChans {
			if len(a.L) == 1 && a.L[0] == id {
				return boolVal("true")
			}
		}
		return boolVal("false")
	case "isfresh":
		// isfresh(p): p points to an object allocated by the current activation
		if env.callSite {
			efail("isfresh() refers to the callee's own activation")
		}
		a := env.eval(x.Args[0])
		for _, o := range e.freshObjs {
			if len(a.L) == 1 && a.L[0] == o {
				return boolVal("true")
			}
		}
		if r := a.ref(0); r != nil && r.Loc != nil && r.Loc.Kind == LCell {
			return boolVal("true")
		}
		return boolVal("false")
	case "spawnedCount":
		var n string
		switch x.Args[0].Op {
		case "ident", "str":
			n = x.Args[0].Name
		default:
			efail("spawnedCount() needs a function name")
		}
		for k, g := range st.ghost {
			if strings.HasPrefix(k, "spawned:") && simpleName(strings.TrimPrefix(k, "spawned:")) == n {
				return intVal(g)
			}
		}
		return intVal("0")
	case "spawned":
		if st.spawned {
			return boolVal("true")
		}
		return boolVal("false")
	case "chancap":
		a := env.eval(x.Args[0])
		e.smt.Declare("chancap", []string{SU}, SInt)
		return intVal(mkApp("chancap", a.term()))
	case "hashable":
		a := env.eval(x.Args[0])
		return boolVal(mkApp("hashable", mkApp("typeof", a.term())))
	case "istype":
		a := env.eval(x.Args[0])
		if x.Args[1].Op != "type" {
			efail("istype(x, #T)")
		}
		return boolVal(e.typeTest(a, env.resolveType(x.Args[1].Name)))
	case "oncedone":
		loc := env.locOf(x.Args[0])
		if loc == nil {
			efail("oncedone(): cannot resolve location")
		}
		fn := "onceof!" + sanitize(e.fieldClass(loc))
		e.smt.Declare(fn, []string{SU}, SU)
		arr := e.heapArr(st, "oncedone", arraySort(SU, SBool))
		return boolVal(mkSelect(arr, mkApp(fn, loc.Obj)))
	case "didpanic":
		if env.callSite {
			efail("didpanic() refers to the callee's own activation")
		}
		if g, ok := st.ghost["$panicked"]; ok {
			return boolVal(g)
		}
		return boolVal("false")
	case "closed":
		a := env.eval(x.Args[0])
		// the class of the channel follows the shape of the expression: a struct field or a variable
		cls := "?"
		switch y := x.Args[0]; y.Op {
		case "field":
			if b, err := env.tryEval(y.Args[0]); err == nil && b.T != nil {
				bt := b.T
				if p, ok := bt.Underlying().(*types.Pointer); ok {
					bt = p.Elem()
				}
				cls = typeKey(bt) + "." + y.Name
			}
		case "ident":
			cls = "var:" + y.Name
		case "sitevar":
			if c, ok := env.site["$chanclass"]; ok && len(c.L) == 1 {
				cls = e.strVals[c.L[0]]
			}
		}
		return boolVal(e.chanClosed(st, a.term(), cls))
	case "ite":
		c := env.eval(x.Args[0])
		a := env.eval(x.Args[1])
		b := env.eval(x.Args[2])
		if len(a.L) != len(b.L) {
			efail("ite branches differ in shape")
		}
		out := Val{T: a.T, L: make([]string, len(a.L))}
		for i := range a.L {
			l, r := env.coerce(a, a.L[i], b, b.L[i])
			out.L[i] = mkIte(c.term(), l, r)
		}
		if a.T == nil {
			out = out.withSort(e.sortOf(a))
		}
		return out
	case "unbox":
		a := env.eval(x.Args[0])
		if x.Args[1].Op != "type" {
			efail("unbox(x, #T)")
		}
		t := env.resolveType(x.Args[1].Name)
		return e.unbox(a, t)
	case "defined":
		if x.Args[0].Op != "ident" {
			efail("defined(name)")
		}
		if _, ok := st.lets[x.Args[0].Name]; ok {
			return boolVal("true")
		}
		for fr := env.fr; fr != nil; fr = fr.parent {
			if c, ok := fr.names[x.Args[0].Name]; ok {
				// the variable must have been declared on THIS path, not merely on an earlier explored one
				if _, live := st.cells[c]; live {
					return boolVal("true")
				}
				return boolVal("false")
			}
			if _, ok := fr.heapNames[x.Args[0].Name]; ok {
				return boolVal("true")
			}
		}
		return boolVal("false")
	case "isbytes":
		// isbytes(b, "lit"): b is syntactically the byte-slice conversion of the string literal
		a := env.eval(x.Args[0])
		if x.Args[1].Op != "str" || len(a.L) != 4 {
			efail("isbytes(slice, \"literal\")")
		}
		if a.L[0] == mkApp("bytesof", e.strConst(x.Args[1].Name)) {
			return boolVal("true")
		}
		return boolVal("false")
	case "visited":
		// visited(n, k): key k has already been yielded by the n-th range-over-map loop of the current function
		if len(x.Args) != 2 || x.Args[0].Op != "num" {
			efail("visited(n, key)")
		}
		k := env.eval(x.Args[1])
		fn := env.fr
		for fn != nil && fn.parent != nil {
			fn = fn.parent
		}
		if env.fr == nil {
			efail("visited() outside a function")
		}
		var names []string
		suffix := "!" + sanitize(env.fr.fn.Name())
		for n := range e.heapSorts {
			if strings.HasPrefix(n, "rangevisited!") && strings.HasSuffix(n, suffix) {
				names = append(names, n)
			}
		}
		sort.Slice(names, func(i, j int) bool {
			return rangeOrd(names[i]) < rangeOrd(names[j])
		})
		var idx int
		fmt.Sscanf(x.Args[0].Name, "%d", &idx)
		if idx < 1 || idx > len(names) {
			efail("visited(%d, ..): function has %d range-over-map loops seen so far", idx, len(names))
		}
		arr := e.heapArr(st, names[idx-1], e.heapSorts[names[idx-1]])
		return boolVal(mkSelect(arr, k.term()))
	case "nondetBool":
		return boolVal(e.smt.Fresh("nondet", SBool))
	case "nondetInt":
		return intVal(e.smt.Fresh("nondet", SInt))
	case "bytesof":
		a := env.eval(x.Args[0])
		e.smt.Declare("bytesof", []string{SU}, SU)
		return specVal(mkApp("bytesof", a.term()), SU)
	case "strcat":
		a := env.eval(x.Args[0])
		b := env.eval(x.Args[1])
		return Val{T: types.Typ[types.String], L: []string{mkApp("strcat", a.term(), b.term())}}
	case "box":
		a := env.eval(x.Args[0])
		if a.T == nil {
			efail("box() needs a typed value")
		}
		if isInterface(a.T) {
			return a
		}
		return e.makeIface(st, a, types.NewInterfaceType(nil, nil))
	case "isfn":
		// isfn(v, "name"): the func value v is statically known to be function/closure `name`
		a := env.eval(x.Args[0])
		if x.Args[1].Op != "str" {
			efail("isfn(v, \"name\")")
		}
		match := func(r *Refine) bool {
			if r == nil || r.Fn == nil {
				return false
			}
			n := strings.TrimSuffix(shortName(r.Fn.String()), "$bound")
			return n == x.Args[1].Name
		}
		if r := a.ref(0); r != nil {
			if len(r.Alts) > 0 {
				var gs []string
				for _, alt := range r.Alts {
					if match(alt.R) {
						gs = append(gs, alt.Guard)
					}
				}
				return boolVal(mkOr(gs...))
			}
			if match(r) {
				return boolVal("true")
			}
		}
		return boolVal("false")
	case "toreal":
		a := env.eval(x.Args[0])
		if _, ok := intLit(a.term()); ok {
			return specVal(toRealLit(a.term()), SReal)
		}
		return specVal("(to_real "+a.term()+")", SReal)
	}
	if pd, ok := e.spec.Preds[x.Name]; ok {
		if len(pd.Params) != len(x.Args) {
			efail("pred %s expects %d args", x.Name, len(pd.Params))
		}
		saved := env.names
		nn := map[string]Val{}
		for k, v := range saved {
			nn[k] = v
		}
		for i, p := range pd.Params {
			nn[p] = env.eval(x.Args[i])
		}
		env.names = nn
		v := env.eval(pd.Body)
		env.names = saved
		return v
	}
	if d, ok := e.spec.GhostMaps[x.Name]; ok {
		if len(x.Args) != 1 {
			efail("ghost map %s takes one key", x.Name)
		}
		k := env.eval(x.Args[0])
		arr := e.heapArr(st, "gm!"+d.Name, arraySort(d.Args[0], d.Res))
		return specVal(mkSelect(arr, k.term()), d.Res)
	}
	if d, ok := e.spec.SpecFns[x.Name]; ok {
		if len(d.Args) != len(x.Args) {
			efail("specfn %s expects %d args", x.Name, len(d.Args))
		}
		e.smt.Declare(d.Name, d.Args, d.Res)
		var args []string
		for i, a := range x.Args {
			v := env.eval(a)
			if len(v.L) != 1 {
				efail("specfn %s argument %d is not a single leaf", x.Name, i)
			}
			t := v.term()
			if d.Args[i] == SReal && e.sortOf(v) != SReal {
				if _, ok := intLit(t); ok {
					t = toRealLit(t)
				} else {
					t = "(to_real " + t + ")"
				}
			}
			args = append(args, t)
		}
		return specVal(mkApp(d.Name, args...), d.Res)
	}
	efail("unknown spec function %q", x.Name)
	return Val{}
}

// locOf resolves an expression to a location (used for locks).
func (env *Env) locOf(x *Expr) *Loc {
	e := env.e
	switch x.Op {
	case "field":
		base := env.eval(x.Args[0])
		if base.T == nil {
			return nil
		}
		if p, ok := base.T.Underlying().(*types.Pointer); ok {
			if stt, ok := p.Elem().Underlying().(*types.Struct); ok {
				for i := 0; i < stt.NumFields(); i++ {
					if fieldName(stt.Field(i)) == x.Name {
						off, _ := e.fieldOffset(stt, i)
						return subLoc(e.ptrLoc(base), off, stt.Field(i).Type())
					}
				}
			}
		}
	}
	return nil
}

// rangeOrd extracts the SSA register number of the range instruction from a visited-array name.
func rangeOrd(name string) int {
	parts := strings.Split(name, "!")
	for _, p := range parts {
		if strings.HasPrefix(p, "t") {
			var n int
			if _, err := fmt.Sscanf(p, "t%d", &n); err == nil {
				return n
			}
		}
	}
	return 0
}

func (env *Env) tryEval(x *Expr) (v Val, err error) {
	defer func() {
		if r := recover(); r != nil {
			if ee, ok := r.(evalErr); ok {
				err = fmt.Errorf("%s", ee.msg)
				return
			}
			panic(r)
		}
	}()
	return env.eval(x), nil
}

// rangeIntAlias: in `for i := range n` the variable i is declared afresh in every iteration from a hidden counter;
// at the loop head (where invariants are evaluated) i does not exist yet and denotes that counter.
func (e *Engine) rangeIntAlias(st *State, fr *Frame, name string) (Val, bool) {
	for _, b := range fr.fn.Blocks {
		for _, in := range b.Instrs {
			a, ok := in.(*ssa.Alloc)
			if !ok || a.Comment == "" || (a.Comment != name && e.allocName(a) != name) || a.Referrers() == nil {
				continue
			}
			for _, r := range *a.Referrers() {
				stv, ok := r.(*ssa.Store)
				if !ok || stv.Addr != a {
					continue
				}
				ld, ok := stv.Val.(*ssa.UnOp)
				if !ok || ld.Op != token.MUL {
					continue
				}
				it, ok := ld.X.(*ssa.Alloc)
				if !ok || it.Comment != "rangeint.iter" {
					continue
				}
				if c, ok := fr.allocs[it]; ok {
					if _, live := st.cells[c]; live {
						return e.load(st, &Loc{Kind: LCell, Cell: c, Root: c.T, T: c.T}), true
					}
				}
			}
		}
	}
	return Val{}, false
}
