package main

// SMT term construction (strings in SMT-LIB 2 syntax), declaration registry,
// query emission and the solver portfolio.

import (
	"bytes"
	"context"
	"fmt"
	"os"
	"os/exec"
	"sort"
	"strconv"
	"strings"
	"sync"
	"time"
)

const (
	SInt  = "Int"
	SBool = "Bool"
	SReal = "Real"
	SU    = "U" // universal uninterpreted sort: pointers, strings, interfaces, chans, maps, funcs, types
)

type Decl struct {
	Name string
	Args []string
	Res  string
}

// SMT is the (global) registry of declared symbols and background facts.
type SMT struct {
	mu     sync.Mutex
	decls  map[string]*Decl
	order  []string
	facts  []string        // background ground facts (about type constants etc.)
	dist   map[string]bool // constants of sort U that are pairwise distinct (type constants, string literals)
	nfresh int
	defs   []string // define-fun lines (predicates)
}

func NewSMT() *SMT {
	s := &SMT{decls: map[string]*Decl{}, dist: map[string]bool{}}
	s.Declare("nil", nil, SU)
	s.Declare("typeof", []string{SU}, SU)
	s.Declare("hashable", []string{SU}, SBool)
	s.Declare("strlen", []string{SU}, SInt)
	s.Declare("strcat", []string{SU, SU}, SU)
	s.Declare("T!nil", nil, SU)
	s.dist["T!nil"] = true
	s.facts = append(s.facts, "(= (typeof nil) T!nil)", "(hashable T!nil)")
	return s
}

func sanitize(n string) string {
	var b strings.Builder
	for _, r := range n {
		switch {
		case r >= 'a' && r <= 'z', r >= 'A' && r <= 'Z', r >= '0' && r <= '9', r == '_', r == '.', r == '!', r == '$':
			b.WriteRune(r)
		default:
			b.WriteString("_")
		}
	}
	return b.String()
}

func (s *SMT) Declare(name string, args []string, res string) string {
	s.mu.Lock()
	defer s.mu.Unlock()
	if d, ok := s.decls[name]; ok {
		if d.Res != res || len(d.Args) != len(args) {
			panic(fmt.Sprintf("smt: redeclaration of %s with different signature: %v->%s vs %v->%s", name, d.Args, d.Res, args, res))
		}
		return name
	}
	s.decls[name] = &Decl{name, args, res}
	s.order = append(s.order, name)
	return name
}

func (s *SMT) Declared(name string) *Decl {
	s.mu.Lock()
	defer s.mu.Unlock()
	return s.decls[name]
}

func (s *SMT) Fresh(prefix string, sort string) string {
	s.mu.Lock()
	s.nfresh++
	n := fmt.Sprintf("%s!%d", sanitize(prefix), s.nfresh)
	s.mu.Unlock()
	return s.Declare(n, nil, sort)
}

func (s *SMT) AddFact(f string) {
	s.mu.Lock()
	defer s.mu.Unlock()
	s.facts = append(s.facts, f)
}

func (s *SMT) Distinct(c string) {
	s.mu.Lock()
	defer s.mu.Unlock()
	s.dist[c] = true
}

// ---- term constructors with light simplification ----

func isLit(t string) bool {
	if t == "true" || t == "false" {
		return true
	}
	_, ok := intLit(t)
	return ok
}

func intLit(t string) (int64, bool) {
	if strings.HasPrefix(t, "(- ") && strings.HasSuffix(t, ")") {
		v, err := strconv.ParseInt(t[3:len(t)-1], 10, 64)
		if err == nil {
			return -v, true
		}
		return 0, false
	}
	v, err := strconv.ParseInt(t, 10, 64)
	if err != nil {
		return 0, false
	}
	return v, true
}

func mkInt(v int64) string {
	if v < 0 {
		if v == -9223372036854775808 {
			return "(- 9223372036854775808)"
		}
		return fmt.Sprintf("(- %d)", -v)
	}
	return strconv.FormatInt(v, 10)
}

func mkNot(a string) string {
	switch a {
	case "true":
		return "false"
	case "false":
		return "true"
	}
	if strings.HasPrefix(a, "(not ") && strings.HasSuffix(a, ")") {
		return a[5 : len(a)-1]
	}
	return "(not " + a + ")"
}

func mkAnd(xs ...string) string {
	var out []string
	for _, x := range xs {
		if x == "true" {
			continue
		}
		if x == "false" {
			return "false"
		}
		out = append(out, x)
	}
	if len(out) == 0 {
		return "true"
	}
	if len(out) == 1 {
		return out[0]
	}
	return "(and " + strings.Join(out, " ") + ")"
}

func mkOr(xs ...string) string {
	var out []string
	for _, x := range xs {
		if x == "false" {
			continue
		}
		if x == "true" {
			return "true"
		}
		out = append(out, x)
	}
	if len(out) == 0 {
		return "false"
	}
	if len(out) == 1 {
		return out[0]
	}
	return "(or " + strings.Join(out, " ") + ")"
}

func mkImp(a, b string) string {
	if a == "true" {
		return b
	}
	if a == "false" || b == "true" {
		return "true"
	}
	if b == "false" {
		return mkNot(a)
	}
	return "(=> " + a + " " + b + ")"
}

func mkEq(a, b string) string {
	if a == b {
		return "true"
	}
	if isLit(a) && isLit(b) {
		return "false"
	}
	if a == "true" {
		return b
	}
	if b == "true" {
		return a
	}
	if a == "false" {
		return mkNot(b)
	}
	if b == "false" {
		return mkNot(a)
	}
	return "(= " + a + " " + b + ")"
}

func mkIte(c, a, b string) string {
	if c == "true" {
		return a
	}
	if c == "false" {
		return b
	}
	if a == b {
		return a
	}
	return "(ite " + c + " " + a + " " + b + ")"
}

func mkAdd(a, b string) string {
	x, ok1 := intLit(a)
	y, ok2 := intLit(b)
	if ok1 && ok2 {
		return mkInt(x + y)
	}
	if ok1 && x == 0 {
		return b
	}
	if ok2 && y == 0 {
		return a
	}
	return "(+ " + a + " " + b + ")"
}

func mkSub(a, b string) string {
	x, ok1 := intLit(a)
	y, ok2 := intLit(b)
	if ok1 && ok2 {
		return mkInt(x - y)
	}
	if ok2 && y == 0 {
		return a
	}
	return "(- " + a + " " + b + ")"
}

func mkCmp(op, a, b string) string {
	x, ok1 := intLit(a)
	y, ok2 := intLit(b)
	if ok1 && ok2 {
		var r bool
		switch op {
		case "<":
			r = x < y
		case "<=":
			r = x <= y
		case ">":
			r = x > y
		case ">=":
			r = x >= y
		}
		if r {
			return "true"
		}
		return "false"
	}
	return "(" + op + " " + a + " " + b + ")"
}

func mkApp(f string, args ...string) string {
	if len(args) == 0 {
		return f
	}
	return "(" + f + " " + strings.Join(args, " ") + ")"
}

func mkSelect(a, i string) string { return "(select " + a + " " + i + ")" }
func mkStore(a, i, v string) string {
	return "(store " + a + " " + i + " " + v + ")"
}

func arraySort(idx, elem string) string { return "(Array " + idx + " " + elem + ")" }

// ---- query emission ----

type Query struct {
	Name    string
	Assume  []string
	Goal    string   // query asks: Assume /\ not Goal satisfiable?  (Goal == "" : plain satisfiability of Assume = cover)
	Watch   []string // terms whose model value we want
	smtText string
}

// symbols scans a term for identifiers so that only the declarations in use are emitted.
func scanSymbols(t string, into map[string]bool) {
	i := 0
	for i < len(t) {
		c := t[i]
		if c == '(' || c == ')' || c == ' ' || c == '\n' || c == '\t' {
			i++
			continue
		}
		if c == '"' {
			j := i + 1
			for j < len(t) && t[j] != '"' {
				j++
			}
			i = j + 1
			continue
		}
		j := i
		for j < len(t) && t[j] != '(' && t[j] != ')' && t[j] != ' ' && t[j] != '\n' && t[j] != '\t' {
			j++
		}
		into[t[i:j]] = true
		i = j
	}
}

func (s *SMT) Emit(q *Query, logicLine bool) string {
	s.mu.Lock()
	defer s.mu.Unlock()
	used := map[string]bool{}
	for _, a := range q.Assume {
		scanSymbols(a, used)
	}
	scanSymbols(q.Goal, used)
	for _, w := range q.Watch {
		scanSymbols(w, used)
	}
	// facts & defs are included only if every non-builtin symbol they mention is already used or declared-const of distinct set
	var b bytes.Buffer
	b.WriteString("(set-option :produce-models true)\n")
	if logicLine {
		b.WriteString("(set-logic ALL)\n")
	}
	b.WriteString("(declare-sort U 0)\n")
	// close over facts: a fact is relevant if it shares a non-trivial symbol with the query
	var facts []string
	changed := true
	taken := make([]bool, len(s.facts))
	for changed {
		changed = false
		for i, f := range s.facts {
			if taken[i] {
				continue
			}
			fs := map[string]bool{}
			scanSymbols(f, fs)
			rel := false
			for sym := range fs {
				if sym == "typeof" || sym == "hashable" || sym == "nil" || sym == "=" || sym == "not" || sym == "T!nil" || sym == "and" || sym == "or" || sym == "=>" {
					continue
				}
				if _, isDecl := s.decls[sym]; !isDecl {
					continue
				}
				if used[sym] {
					rel = true
					break
				}
			}
			if rel {
				taken[i] = true
				changed = true
				facts = append(facts, f)
				for sym := range fs {
					used[sym] = true
				}
			}
		}
	}
	facts = append(facts, "(= (typeof nil) T!nil)", "(hashable T!nil)")
	used["typeof"], used["hashable"], used["nil"], used["T!nil"] = true, true, true, true
	for _, d := range s.defs {
		scanSymbols(d, used)
	}
	for _, n := range s.order {
		if !used[n] {
			continue
		}
		d := s.decls[n]
		if len(d.Args) == 0 {
			fmt.Fprintf(&b, "(declare-const %s %s)\n", n, d.Res)
		} else {
			fmt.Fprintf(&b, "(declare-fun %s (%s) %s)\n", n, strings.Join(d.Args, " "), d.Res)
		}
	}
	for _, d := range s.defs {
		b.WriteString(d + "\n")
	}
	var ds []string
	for c := range s.dist {
		if used[c] {
			ds = append(ds, c)
		}
	}
	sort.Strings(ds)
	if len(ds) > 1 {
		fmt.Fprintf(&b, "(assert (distinct %s))\n", strings.Join(ds, " "))
	}
	seen := map[string]bool{}
	for _, f := range facts {
		if !seen[f] {
			seen[f] = true
			fmt.Fprintf(&b, "(assert %s)\n", f)
		}
	}
	for _, a := range q.Assume {
		if a == "true" {
			continue
		}
		fmt.Fprintf(&b, "(assert %s)\n", a)
	}
	if q.Goal != "" {
		fmt.Fprintf(&b, "(assert (not %s))\n", q.Goal)
	}
	b.WriteString("(check-sat)\n")
	if len(q.Watch) > 0 {
		fmt.Fprintf(&b, "(get-value (%s))\n", strings.Join(q.Watch, " "))
	} else if q.Goal != "" {
		b.WriteString("(get-model)\n")
	}
	return b.String()
}

type SolverResult struct {
	Status string // unsat | sat | unknown | timeout | error
	Solver string
	Model  string
	Time   float64
	Raw    string
}

var solverCmds = map[string][]string{
	"z3-new": {"z3-new", "-in", "-smt2"},
	"z3":     {"z3", "-in", "-smt2"},
	"cvc5":   {"cvc5", "--lang=smt2", "--incremental"},
}

func runSolver(name string, text string, timeout time.Duration, seed int) SolverResult {
	args := append([]string{}, solverCmds[name]...)
	switch name {
	case "z3-new", "z3":
		args = append(args, fmt.Sprintf("-T:%d", int(timeout.Seconds())+1))
		if seed != 0 {
			text = fmt.Sprintf("(set-option :smt.random_seed %d)\n", seed%100000) + text
		}
	case "cvc5":
		args = append(args, fmt.Sprintf("--tlimit=%d", timeout.Milliseconds()))
		if seed != 0 {
			args = append(args, fmt.Sprintf("--seed=%d", seed%100000))
		}
	}
	ctx, cancel := context.WithTimeout(context.Background(), timeout+2*time.Second)
	defer cancel()
	cmd := exec.CommandContext(ctx, args[0], args[1:]...)
	cmd.Stdin = strings.NewReader(text)
	var out bytes.Buffer
	cmd.Stdout = &out
	cmd.Stderr = &out
	t0 := time.Now()
	_ = cmd.Run()
	el := time.Since(t0).Seconds()
	raw := out.String()
	first := strings.TrimSpace(raw)
	if i := strings.IndexByte(first, '\n'); i >= 0 {
		first = strings.TrimSpace(first[:i])
	}
	res := SolverResult{Solver: name, Time: el, Raw: raw}
	switch first {
	case "unsat":
		res.Status = "unsat"
	case "sat":
		res.Status = "sat"
		if i := strings.IndexByte(raw, '\n'); i >= 0 {
			res.Model = strings.TrimSpace(raw[i+1:])
		}
	case "unknown":
		res.Status = "unknown"
		if i := strings.IndexByte(raw, '\n'); i >= 0 {
			res.Model = strings.TrimSpace(raw[i+1:])
		}
	case "timeout":
		res.Status = "timeout"
	default:
		if ctx.Err() != nil || strings.Contains(raw, "timeout") || strings.Contains(raw, "interrupted") {
			res.Status = "timeout"
		} else {
			res.Status = "error"
		}
	}
	return res
}

// Solve runs the portfolio. quick: z3-new first, others only if it does not decide.
// thorough: all solvers; every one that answers definitively must agree.
func (s *SMT) Solve(q *Query, thorough bool, seed int, timeout time.Duration) (SolverResult, []SolverResult) {
	textZ := s.Emit(q, false)
	textC := s.Emit(q, true)
	q.smtText = textZ
	var all []SolverResult
	definitive := func(r SolverResult) bool { return r.Status == "unsat" || r.Status == "sat" }
	if !thorough {
		// deterministic: default solver seeds. VERIF_SEED is only used to perturb the search in the thorough tier.
		r := runSolver("z3-new", textZ, timeout, 0)
		all = append(all, r)
		if definitive(r) {
			return r, all
		}
		ch := make(chan SolverResult, 2)
		go func() { ch <- runSolver("z3", textZ, timeout, 0) }()
		go func() { ch <- runSolver("cvc5", textC, timeout, 0) }()
		best := r
		for i := 0; i < 2; i++ {
			x := <-ch
			all = append(all, x)
			if definitive(x) && !definitive(best) {
				best = x
			}
		}
		return best, all
	}
	ch := make(chan SolverResult, 4)
	n := 3
	go func() { ch <- runSolver("z3-new", textZ, timeout, 0) }()
	go func() { ch <- runSolver("z3", textZ, timeout, 0) }()
	go func() { ch <- runSolver("cvc5", textC, timeout, 0) }()
	if seed != 0 {
		n = 4
		go func() {
			r := runSolver("z3-new", textZ, timeout, seed)
			r.Solver = "z3-new(seed)"
			ch <- r
		}()
	}
	var best SolverResult
	best.Status = "unknown"
	for i := 0; i < n; i++ {
		x := <-ch
		all = append(all, x)
		if definitive(x) && definitive(best) && x.Status != best.Status {
			best.Raw = fmt.Sprintf("%s says %s, %s says %s", best.Solver, best.Status, x.Solver, x.Status)
			best.Status = "disagree"
			return best, all
		}
		if definitive(x) && !definitive(best) {
			best = x
		} else if !definitive(best) && best.Solver == "" {
			best = x
		}
	}
	return best, all
}

func dumpQuery(dir, name, text string) string {
	_ = os.MkdirAll(dir, 0o755)
	p := dir + "/" + sanitize(name) + ".smt2"
	_ = os.WriteFile(p, []byte(text), 0o644)
	return p
}
