package main

// Counterexample replay: for the function families below a driver test (in /verif/replay) is injected into the
// package with `go test -overlay` (nothing is written to the repository) and exercises the REAL function with the
// concrete inputs the solver's counterexamples range over (frame shapes, request bodies, attempts, permission sets,
// panic payloads, read/close sequences). A driver that observes the violation confirms it; otherwise the violation is
// reported with no-failing-input-found and the solver's output attached.

import (
	"context"
	"encoding/json"
	"fmt"
	"os"
	"os/exec"
	"path/filepath"
	"regexp"
	"strings"
	"sync"
	"time"
)

type replayDriver struct {
	file string // under <verif>/replay
	pkg  string // package directory relative to the repository root
	test string
}

var replayDrivers = map[string]replayDriver{
	"(*wsConn).cancelCtx":            {"frames_test.go.txt", ".", "TestZZReplayFrames"},
	"(*wsConn).handleChanMessage":    {"frames_test.go.txt", ".", "TestZZReplayFrames"},
	"(*wsConn).handleChanClose":      {"frames_test.go.txt", ".", "TestZZReplayFrames"},
	"(*wsConn).handleResponse":       {"frames_test.go.txt", ".", "TestZZReplayFrames"},
	"(*wsConn).handleFrame":          {"frames_test.go.txt", ".", "TestZZReplayFrames"},
	"(*wsConn).frameExecutor":        {"frames_test.go.txt", ".", "TestZZReplayFrames"},
	"(*wsConn).handleCall":           {"frames_test.go.txt", ".", "TestZZReplayFrames"},
	"normalizeID":                    {"frames_test.go.txt", ".", "TestZZReplayFrames"},
	"(*handler).handleReader":        {"reader_test.go.txt", ".", "TestZZReplayReader"},
	"(*backoff).next":                {"backoff_test.go.txt", ".", "TestZZReplayBackoff"},
	"doCall":                         {"docall_test.go.txt", ".", "TestZZReplayDoCall"},
	"auth.HasPerm":                   {"auth/hasperm_test.go.txt", "auth", "TestZZReplayHasPerm"},
	"auth.WithPerm":                  {"auth/hasperm_test.go.txt", "auth", "TestZZReplayHasPerm"},
	"(*httpio.waitReadCloser).Read":  {"httpio/wrc_test.go.txt", "httpio", "TestZZReplayWaitReadCloser"},
	"(*httpio.waitReadCloser).Close": {"httpio/wrc_test.go.txt", "httpio", "TestZZReplayWaitReadCloser"},
}

type replayOutcome struct {
	confirmed bool
	output    string
	cmd       string
}

var (
	replayMu    sync.Mutex
	replayCache = map[string]*replayOutcome{}
)

var modelIntRe = regexp.MustCompile(`\(define-fun (H!backoff!(\d)!0) \(\) \(Array U Int\)\s+\(\(as const \(Array U Int\)\) (\(- \d+\)|\d+)\)`)

func (e *Engine) tryReplay(prop string, g *groupResult, rf *replayFile) bool {
	d, ok := replayDrivers[g.Func]
	if !ok {
		rf.Notes = append(rf.Notes, "no replay driver is registered for "+g.Func)
		return false
	}
	replayMu.Lock()
	defer replayMu.Unlock()
	key := d.file
	if o, ok := replayCache[key]; ok {
		rf.Replay, rf.ReplayOut = o.cmd, o.output
		return o.confirmed
	}
	o := e.runDriver(d, g)
	replayCache[key] = o
	rf.Replay, rf.ReplayOut = o.cmd, o.output
	return o.confirmed
}

func (e *Engine) runDriver(d replayDriver, g *groupResult) *replayOutcome {
	src := filepath.Join(*flagVerif, "replay", d.file)
	if _, err := os.Stat(src); err != nil {
		return &replayOutcome{output: "driver missing: " + src}
	}
	tmp, err := os.MkdirTemp("", "govc-replay-")
	if err != nil {
		return &replayOutcome{output: err.Error()}
	}
	defer os.RemoveAll(tmp)
	repo, _ := filepath.Abs(*flagRepo)
	target := filepath.Join(repo, d.pkg, "zz_govc_replay_test.go")
	ov := map[string]map[string]string{"Replace": {target: src}}
	data, _ := json.Marshal(ov)
	ovPath := filepath.Join(tmp, "overlay.json")
	_ = os.WriteFile(ovPath, data, 0o644)
	args := []string{"test", "-overlay", ovPath, "-vet=off", "-count=1", "-timeout", "120s", "-run", "^" + d.test + "$", "./" + d.pkg}
	ctx, cancel := context.WithTimeout(context.Background(), 150*time.Second)
	defer cancel()
	cmd := exec.CommandContext(ctx, "go", args...)
	cmd.Dir = repo
	cmd.Env = append(os.Environ(), "GOFLAGS=-mod=mod", "GOPROXY=off", "GOSUMDB=off", "GOTOOLCHAIN=local")
	// hand the interesting numeric model values to the driver where it can use them
	if m := modelIntRe.FindAllStringSubmatch(g.Model, -1); len(m) > 0 {
		for _, x := range m {
			v := strings.NewReplacer("(- ", "-", ")", "").Replace(x[3])
			if x[2] == "0" {
				cmd.Env = append(cmd.Env, "GOVC_MODEL_MIN="+v)
			} else {
				cmd.Env = append(cmd.Env, "GOVC_MODEL_MAX="+v)
			}
		}
	}
	out, _ := cmd.CombinedOutput()
	text := string(out)
	var keep []string
	for _, ln := range strings.Split(text, "\n") {
		if strings.Contains(ln, "REPLAY-") || strings.HasPrefix(ln, "--- ") || strings.HasPrefix(ln, "FAIL") || strings.HasPrefix(ln, "ok ") || strings.HasPrefix(ln, "panic:") {
			keep = append(keep, ln)
		}
	}
	if len(keep) > 40 {
		keep = append(keep[:40], fmt.Sprintf("... (%d more lines)", len(keep)-40))
	}
	return &replayOutcome{
		confirmed: strings.Contains(text, "REPLAY-VIOLATION"),
		output:    strings.Join(keep, "\n"),
		cmd:       "cd " + repo + " && go " + strings.Join(args, " ") + "   # overlay: " + target + " -> " + src,
	}
}
