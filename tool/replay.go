package main

// tryReplay attempts to turn a solver model into a concrete input and run it against the real code.
// Drivers are registered per function; without one the violation is reported with no-failing-input-found.
func (e *Engine) tryReplay(prop string, g *groupResult, rf *replayFile) bool {
	return false
}
