package main

// Path-wise symbolic execution of go/ssa (naive form) with obligation generation.

import (
	"fmt"
	"go/constant"
	"go/token"
	"go/types"
	"sort"
	"strings"

	"golang.org/x/tools/go/ssa"
)

type Oblig struct {
	Name   string
	Kind   string
	Func   string
	Label  string
	Tags   []string
	Assume []string
	Goal   string
	Pos    string
	Cover  bool // satisfiability expected
	Note   string
	// results
	Status string
	Solver string
	Time   float64
	Model  string
	Text   string
	Alts   [][]string
}

type Outcome struct {
	st       *State
	ret      Val
	panicked bool
}

type Engine struct {
	prog             *ssa.Program
	fset             *token.FileSet
	fns              map[string]*ssa.Function
	names            *nameTables
	baseExt          map[string]bool
	sweepOnly        bool
	inGlobal         bool
	allocIdx         map[*ssa.Alloc]int
	curNames         map[string]*fnInfo
	smt              *SMT
	spec             *SpecFile
	flat             flatCache
	strs             map[string]string
	strVals          map[string]string
	tconsts          map[string]string
	tconstTypes      map[string]types.Type
	heapSorts        map[string]string
	obls             []*Oblig
	ncell            int
	nq               int
	curProp          string
	unit             string
	rootPkg          *types.Package
	repoPkgs         []*types.Package
	safetyOn         bool
	warnings         []string
	abstracted       map[string]int
	havocCalls       map[string]int
	inlined          map[string]int
	extUsed          map[string]int
	paths            int
	maxPaths         int
	trace            bool
	c10units         map[string]bool
	lockLess         map[string]map[string]bool
	specErrs         []string
	axiomTexts       []string
	unitStats        []string
	modCache         map[*ssa.BasicBlock]*modSet
	sharedCells      map[*Cell]bool
	blockVisits      map[string]int
	pdomCache        map[*ssa.Function]map[*ssa.BasicBlock]*ssa.BasicBlock
	noMerge          bool
	merges           int
	nchoice          int
	closedCls        map[string]bool
	mutGlobals       map[string]bool
	freshObjs        []string
	fnModCache       map[*ssa.Function]*modSet
	ifaceImplCache   map[string]bool
	neverClosedSends map[string]int
}

func (e *Engine) warn(format string, a ...interface{}) {
	w := fmt.Sprintf(format, a...)
	for _, x := range e.warnings {
		if x == w {
			return
		}
	}
	e.warnings = append(e.warnings, w)
}

// ---------- obligations ----------

func tagsInclude(tags []string, p string) bool {
	for _, t := range tags {
		if t == p {
			return true
		}
	}
	return false
}

func (e *Engine) wantTags(tags []string) bool {
	if e.curProp == "" || e.curProp == "ALL" {
		return true
	}
	if len(tags) == 0 {
		return true
	}
	if pd := e.spec.Properties[e.curProp]; pd != nil && pd.Core[e.unit] {
		return true // every clause of a core unit counts for the property
	}
	return tagsInclude(tags, e.curProp)
}

func (e *Engine) oblige(st *State, kind, label, goal string, tags []string, pos token.Pos) {
	if !e.wantTags(tags) {
		return
	}
	if e.sweepOnly && !e.inGlobal && kind != "spawn" && kind != "guard" {
		return
	}
	o := &Oblig{Kind: kind, Func: e.unit, Label: label, Tags: tags, Goal: goal}
	o.Name = fmt.Sprintf("%s/%s/%s:%s", e.curProp, e.unit, kind, label)
	if pos.IsValid() {
		p := e.fset.Position(pos)
		o.Pos = fmt.Sprintf("%s:%d", p.Filename, p.Line)
	}
	if goal == "true" {
		o.Status = "unsat"
		o.Solver = "trivial"
		e.obls = append(e.obls, o)
		return
	}
	o.Assume = st.pc.list()
	e.obls = append(e.obls, o)
}

func (e *Engine) safety(st *State, kind, label, goal string, pos token.Pos) {
	if !e.safetyOn {
		return
	}
	e.oblige(st, kind, label, goal, nil, pos)
}

func (e *Engine) cover(st *State, label string) {
	if e.sweepOnly {
		return
	}
	o := &Oblig{Kind: "cover", Func: e.unit, Label: label, Cover: true}
	o.Name = fmt.Sprintf("%s/%s/cover:%s", e.curProp, e.unit, label)
	o.Assume = st.pc.list()
	e.obls = append(e.obls, o)
}

// ---------- describing SSA values for stable obligation labels ----------

func (e *Engine) describe(v ssa.Value) string {
	switch x := v.(type) {
	case *ssa.Const:
		if x.Value == nil {
			return "nil"
		}
		return x.Value.ExactString()
	case *ssa.Alloc:
		if x.Comment != "" {
			return e.allocName(x)
		}
		return x.Name()
	case *ssa.Parameter:
		return e.vname(x.Parent(), x.Name())
	case *ssa.FreeVar:
		return e.vname(x.Parent(), x.Name())
	case *ssa.Global:
		return x.Name()
	case *ssa.UnOp:
		if x.Op == token.MUL {
			return e.describe(x.X)
		}
		if x.Op == token.ARROW {
			return "<-" + e.describe(x.X)
		}
	case *ssa.FieldAddr:
		st := x.X.Type().Underlying().(*types.Pointer).Elem().Underlying().(*types.Struct)
		return e.describe(x.X) + "." + fieldName(st.Field(x.Field))
	case *ssa.Field:
		st := x.X.Type().Underlying().(*types.Struct)
		return e.describe(x.X) + "." + fieldName(st.Field(x.Field))
	case *ssa.IndexAddr:
		return e.describe(x.X) + "[" + e.describe(x.Index) + "]"
	case *ssa.Index:
		return e.describe(x.X) + "[" + e.describe(x.Index) + "]"
	case *ssa.Lookup:
		return e.describe(x.X) + "[" + e.describe(x.Index) + "]"
	case *ssa.BinOp:
		return e.describe(x.X) + x.Op.String() + e.describe(x.Y)
	case *ssa.Extract:
		return e.describe(x.Tuple) + "#" + fmt.Sprint(x.Index)
	case *ssa.Call:
		if c := x.Call.StaticCallee(); c != nil {
			return c.Name() + "()"
		}
		if x.Call.IsInvoke() {
			return e.describe(x.Call.Value) + "." + x.Call.Method.Name() + "()"
		}
		if b, ok := x.Call.Value.(*ssa.Builtin); ok {
			var as []string
			for _, a := range x.Call.Args {
				as = append(as, e.describe(a))
			}
			return b.Name() + "(" + strings.Join(as, ",") + ")"
		}
		return e.describe(x.Call.Value) + "()"
	case *ssa.Convert:
		return e.describe(x.X)
	case *ssa.ChangeType:
		return e.describe(x.X)
	case *ssa.MakeInterface:
		return e.describe(x.X)
	case *ssa.TypeAssert:
		return e.describe(x.X) + ".(" + typeKey(x.AssertedType) + ")"
	case *ssa.Slice:
		return e.describe(x.X) + "[:]"
	case *ssa.Function:
		return shortName(x.String())
	}
	return "_"
}

// ---------- frames and cells ----------

func (e *Engine) newCell(t types.Type, name string, heap bool) *Cell {
	e.ncell++
	return &Cell{id: e.ncell, T: t, name: name, heap: heap}
}

func (e *Engine) cellPtr(c *Cell, ptrType types.Type) Val {
	name := fmt.Sprintf("cell!%d", c.id)
	e.smt.Declare(name, nil, SU)
	e.smt.Distinct(name)
	e.smt.AddFact("(not (= " + name + " nil))")
	return Val{T: ptrType, L: []string{name}, R: []*Refine{{Loc: &Loc{Kind: LCell, Cell: c, Root: c.T, T: c.T}}}}
}

func (e *Engine) get(st *State, fr *Frame, v ssa.Value) Val {
	switch x := v.(type) {
	case *ssa.Const:
		return e.constOf(x)
	case *ssa.Function:
		return e.funcVal(x, nil)
	case *ssa.Global:
		g := shortPkg(x.Pkg.Pkg.Path()) + "." + x.Name()
		elem := x.Type().Underlying().(*types.Pointer).Elem()
		name := "glob!" + sanitize(g)
		e.smt.Declare(name, nil, SU)
		e.smt.AddFact("(not (= " + name + " nil))")
		return Val{T: x.Type(), L: []string{name}, R: []*Refine{{Loc: &Loc{Kind: LGlobal, Glob: g, Root: elem, T: elem}}}}
	case *ssa.FreeVar:
		for i, fv := range fr.fn.FreeVars {
			if fv == x {
				if i < len(fr.bindings) {
					return fr.bindings[i]
				}
			}
		}
		panic("unbound free variable " + x.Name() + " in " + fr.fn.String())
	case *ssa.Builtin:
		return Val{T: x.Type(), L: []string{"nil"}}
	}
	if val, ok := fr.regs[v]; ok {
		return val
	}
	panic(fmt.Sprintf("value %s (%T) not defined on this path in %s", v.Name(), v, fr.fn))
}

func (e *Engine) funcVal(f *ssa.Function, bind []Val) Val {
	name := "fn!" + sanitize(shortName(f.String()))
	if len(bind) > 0 {
		// closures: distinct per creation
		name = e.smt.Fresh(name, SU)
	} else {
		e.smt.Declare(name, nil, SU)
	}
	e.smt.AddFact("(not (= " + name + " nil))")
	return Val{T: f.Signature, L: []string{name}, R: []*Refine{{Fn: f, Bind: bind}}}
}

func (e *Engine) constOf(c *ssa.Const) Val {
	t := c.Type()
	if c.Value == nil {
		return e.zeroVal(t)
	}
	return e.constVal(t, c.Value)
}

var _ = constant.MakeBool

// ---------- interfaces ----------

func (e *Engine) boxName(t types.Type) (string, []string) {
	var sorts []string
	for _, l := range e.flatten(t) {
		sorts = append(sorts, l.Sort)
	}
	name := "box!" + sanitize(typeKey(t))
	return name, sorts
}

func (e *Engine) makeIface(st *State, v Val, ifaceT types.Type) Val {
	if isInterface(v.T) {
		return Val{T: ifaceT, L: v.L, R: v.R}
	}
	name, sorts := e.boxName(v.T)
	var term string
	if len(sorts) == 0 {
		e.smt.Declare(name, nil, SU)
		term = name
	} else {
		e.smt.Declare(name, sorts, SU)
		term = mkApp(name, v.L...)
	}
	tc := e.typeConst(v.T)
	st.assume(mkEq(mkApp("typeof", term), tc))
	st.assume(mkNot(mkEq(term, "nil")))
	for i, l := range e.flatten(v.T) {
		un := fmt.Sprintf("unbox!%s!%d", sanitize(typeKey(v.T)), i)
		e.smt.Declare(un, []string{SU}, l.Sort)
		st.assume(mkEq(mkApp(un, term), v.L[i]))
	}
	cp := v
	return Val{T: ifaceT, L: []string{term}, R: []*Refine{{Box: &cp}}}
}

func (e *Engine) unbox(x Val, t types.Type) Val {
	if r := x.ref(0); r != nil && r.Box != nil && types.Identical(r.Box.T, t) {
		return *r.Box
	}
	ls := e.flatten(t)
	out := Val{T: t, L: make([]string, len(ls))}
	for i, l := range ls {
		un := fmt.Sprintf("unbox!%s!%d", sanitize(typeKey(t)), i)
		e.smt.Declare(un, []string{SU}, l.Sort)
		out.L[i] = mkApp(un, x.term())
	}
	return out
}

// typeTest returns the condition under which interface value x has dynamic type t (or implements t).
func (e *Engine) typeTest(x Val, t types.Type) string {
	if r := x.ref(0); r != nil && r.Box != nil {
		if isInterface(t) {
			if types.Implements(r.Box.T, t.Underlying().(*types.Interface)) {
				return "true"
			}
			return "false"
		}
		if types.Identical(r.Box.T, t) {
			return "true"
		}
		return "false"
	}
	if isInterface(t) {
		it := t.Underlying().(*types.Interface)
		if it.NumMethods() == 0 {
			return mkNot(mkEq(x.term(), "nil"))
		}
		e.smt.Declare("implements", []string{SU, SU}, SBool)
		ic := e.typeConst(t)
		// ground facts for the concrete type constants known so far
		for n, ct := range e.tconstTypes {
			if isInterface(ct) {
				continue
			}
			f := mkApp("implements", n, ic)
			if !types.Implements(ct, it) {
				f = mkNot(f)
			}
			e.smt.AddFact(f)
		}
		e.smt.AddFact(mkNot(mkApp("implements", "T!nil", ic)))
		return mkApp("implements", mkApp("typeof", x.term()), ic)
	}
	return mkEq(mkApp("typeof", x.term()), e.typeConst(t))
}

// ---------- channels ----------

// Channel closed-ness is tracked per channel class (the field or variable a channel is reached through), so that a
// close of one kind of channel says nothing about the others.
func (e *Engine) chanClosedArr(st *State, cls string) string {
	name := sanitize("chanclosed!" + cls)
	if _, ok := st.heap[name]; !ok {
		arr := e.heapArr(st, name, arraySort(SU, SBool))
		for _, id := range st.freshChans {
			st.assume(mkNot(mkSelect(arr, id)))
		}
		return arr
	}
	return e.heapArr(st, name, arraySort(SU, SBool))
}

func (e *Engine) chanClosed(st *State, ch string, cls string) string {
	if cls == "" {
		cls = "?"
	}
	return mkSelect(e.chanClosedArr(st, cls), ch)
}

func (e *Engine) setChanClosed(st *State, ch string, cls string, v string) {
	if cls == "" {
		cls = "?"
	}
	arr := e.chanClosedArr(st, cls)
	e.setHeapArr(st, sanitize("chanclosed!"+cls), arraySort(SU, SBool), mkStore(arr, ch, v))
}

// ---------- the executor ----------

type kont func(st *State)

func (e *Engine) newFrame(fn *ssa.Function, parent *Frame, depth int) *Frame {
	return &Frame{fn: fn, regs: map[ssa.Value]Val{}, names: map[string]*Cell{}, depth: depth, parent: parent,
		loopSeen: map[*ssa.BasicBlock]bool{}, iterMap: map[ssa.Value]Val{}}
}

// execFunction runs fn symbolically from st with the given arguments; out is called once per terminating path.
func (e *Engine) execFunction(st *State, fn *ssa.Function, args []Val, bindings []Val, parent *Frame, depth int, contract *Contract, out func(Outcome)) *Frame {
	fr := e.newFrame(fn, parent, depth)
	fr.params = args
	fr.bindings = bindings
	fr.contract = contract
	for i, p := range fn.Params {
		if i < len(args) {
			fr.regs[p] = args[i]
		}
	}
	if len(fn.Blocks) == 0 {
		panic("execFunction: no body for " + fn.String())
	}
	fr.out = out
	e.execFrom(st, fr, fn.Blocks[0], 0, nil)
	return fr
}

func isBackEdge(from, to *ssa.BasicBlock) bool {
	return to.Dominates(from)
}

func (e *Engine) execFrom(st *State, fr *Frame, b *ssa.BasicBlock, idx int, pred *ssa.BasicBlock) {
	if st.dead {
		return
	}
	e.paths++
	if e.blockVisits == nil {
		e.blockVisits = map[string]int{}
	}
	e.blockVisits[fmt.Sprintf("%s#%d", fr.fn.Name(), b.Index)]++
	if e.paths > e.maxPaths {
		var ks []string
		for k, v := range e.blockVisits {
			if v > e.maxPaths/50 {
				ks = append(ks, fmt.Sprintf("%s=%d", k, v))
			}
		}
		sort.Strings(ks)
		panic(fmt.Sprintf("path budget exceeded (%d) in %s; hot blocks: %v", e.maxPaths, e.unit, ks))
	}
	for i := idx; i < len(b.Instrs); i++ {
		ins := b.Instrs[i]
		if e.trace {
			fmt.Printf("  [%s b%d] %s\n", fr.fn.Name(), b.Index, ins)
		}
		switch x := ins.(type) {
		case *ssa.Phi:
			for k, p := range b.Preds {
				if p == pred {
					fr.regs[x] = e.get(st, fr, x.Edges[k])
				}
			}
		case *ssa.If:
			c := e.get(st, fr, x.Cond).term()
			var alts []func()
			if c != "false" {
				s1 := st
				if c != "true" {
					s1 = st.clone()
					s1.assume(c)
				}
				alts = append(alts, func() { e.jump(s1, fr, b, b.Succs[0]) })
			}
			if c != "true" {
				s2 := st
				if c != "false" {
					s2 = st.clone()
				}
				s2.assume(mkNot(c))
				alts = append(alts, func() { e.jump(s2, fr, b, b.Succs[1]) })
			}
			if len(alts) == 1 {
				alts[0]()
			} else {
				e.forkJoin(fr, b, alts)
			}
			return
		case *ssa.Jump:
			e.jump(st, fr, b, b.Succs[0])
			return
		case *ssa.Return:
			var ret Val
			rt := fr.fn.Signature.Results()
			ret.T = rt
			for _, r := range x.Results {
				v := e.get(st, fr, r)
				ret.L = append(ret.L, v.L...)
				if v.R != nil {
					for len(ret.R) < len(ret.L)-len(v.L) {
						ret.R = append(ret.R, nil)
					}
					ret.R = append(ret.R, v.R...)
				} else {
					for len(ret.R) < len(ret.L) {
						ret.R = append(ret.R, nil)
					}
				}
			}
			if rt.Len() == 1 {
				ret.T = rt.At(0).Type()
			}
			fr.out(Outcome{st: st, ret: ret})
			return
		case *ssa.Panic:
			e.siteEvent(st, fr, "panic", "", nil, x.Pos())
			st.panicVal = e.get(st, fr, x.X)
			e.unwind(st, fr)
			return
		case *ssa.RunDefers:
			rest := i + 1
			e.runDefers(st, fr, func(s2 *State) {
				if s2.panicking {
					e.finishPanic(s2, fr)
					return
				}
				e.execFrom(s2, fr, b, rest, pred)
			})
			return
		case *ssa.Call:
			rest := i + 1
			e.execCall(st, fr, x, &x.Call, func(s2 *State, res Val, panicked bool) {
				if panicked {
					e.unwind(s2, fr)
					return
				}
				fr.regs[x] = res
				e.execFrom(s2, fr, b, rest, pred)
			})
			return
		case *ssa.Go:
			e.execGo(st, fr, x)
		case *ssa.Defer:
			callee, args := e.callOperands(st, fr, &x.Call)
			st.defers[fr] = append(append([]DeferredCall{}, st.defers[fr]...), DeferredCall{common: &x.Call, callee: callee, args: args, instr: x})
		case *ssa.Select:
			e.execSelect(st, fr, x, b, i+1, pred)
			return
		default:
			e.execSimple(st, fr, ins)
			if st.dead {
				return
			}
		}
	}
}

func (e *Engine) jump(st *State, fr *Frame, from, to *ssa.BasicBlock) {
	if n := len(fr.joins); n > 0 && fr.joins[n-1].block == to && !isBackEdge(from, to) {
		fr.joins[n-1].parked = append(fr.joins[n-1].parked, parkedState{st, from})
		return
	}
	if e.isLoopHead(to) {
		e.loopArrive(st, fr, from, to)
		return
	}
	e.execFrom(st, fr, to, 0, from)
}

// ---------- defers / panics ----------

func (e *Engine) unwind(st *State, fr *Frame) {
	st.ghost["$panicked"] = "true"
	st.sort["$panicked"] = SBool
	st.panicking = true
	st.recovered = false
	e.runDefers(st, fr, func(s2 *State) { e.finishPanic(s2, fr) })
}

func (e *Engine) finishPanic(st *State, fr *Frame) {
	if st.panicking {
		fr.out(Outcome{st: st, panicked: true})
		return
	}
	// recovered: continue at the Recover block, or return zero values
	if fr.fn.Recover != nil {
		e.execFrom(st, fr, fr.fn.Recover, 0, nil)
		return
	}
	rt := fr.fn.Signature.Results()
	var t types.Type = rt
	if rt.Len() == 1 {
		t = rt.At(0).Type()
	}
	fr.out(Outcome{st: st, ret: e.zeroVal(t)})
}

func (e *Engine) runDefers(st *State, fr *Frame, k kont) {
	ds := st.defers[fr]
	if len(ds) == 0 {
		k(st)
		return
	}
	d := ds[len(ds)-1]
	st.defers[fr] = ds[:len(ds)-1]
	e.applyCall(st, fr, d.instr, d.common, d.callee, d.args, "defer", func(s2 *State, res Val, panicked bool) {
		if panicked {
			s2.panicking = true
		}
		e.runDefers(s2, fr, k)
	})
}

// ---------- simple instructions ----------

func (e *Engine) execSimple(st *State, fr *Frame, ins ssa.Instruction) {
	switch x := ins.(type) {
	case *ssa.DebugRef:
	case *ssa.Alloc:
		elem := x.Type().Underlying().(*types.Pointer).Elem()
		if _, isStruct := elem.Underlying().(*types.Struct); isStruct && x.Heap && !isOpaque(elem) {
			// escaping struct allocations live in the heap arrays so that every alias sees the same fields
			obj := e.smt.Fresh("obj", SU)
			e.smt.Distinct(obj)
			st.assume(mkNot(mkEq(obj, "nil")))
			e.freshObjs = append(e.freshObjs, obj)
			loc := &Loc{Kind: LHeap, Obj: obj, Root: elem, T: elem}
			e.store(st, loc, e.zeroVal(elem))
			fr.regs[x] = Val{T: x.Type(), L: []string{obj}, R: []*Refine{{Loc: loc}}}
			if fr.heapAllocs == nil {
				fr.heapAllocs = map[*ssa.Alloc]*Loc{}
			}
			fr.heapAllocs[x] = loc
			if x.Comment != "" {
				if fr.heapNames == nil {
					fr.heapNames = map[string]*Loc{}
				}
				fr.heapNames[x.Comment] = loc
				fr.heapNames[e.allocName(x)] = loc
			}
			break
		}
		c := e.newCell(elem, e.allocName(x), x.Heap)
		_, namedArr := types.Unalias(elem).(*types.Named)
		if at, ok := elem.Underlying().(*types.Array); ok && !namedArr {
			// arrays are modelled as backing stores addressed like slices
			c.arr = true
			c.base = e.smt.Fresh("arr", SU)
			st.assume(mkNot(mkEq(c.base, "nil")))
			e.allocatedNow(st, c.base)
			_ = at
			e.zeroElems(st, c.base, at.Elem())
		} else {
			st.cells[c] = e.zeroVal(elem)
		}
		if x.Comment != "" {
			fr.names[x.Comment] = c
			fr.names[e.allocName(x)] = c
		}
		if fr.allocs == nil {
			fr.allocs = map[*ssa.Alloc]*Cell{}
		}
		fr.allocs[x] = c
		fr.regs[x] = e.cellPtr(c, x.Type())
	case *ssa.Store:
		addr := e.get(st, fr, x.Addr)
		val := e.get(st, fr, x.Val)
		loc := e.ptrLoc(addr)
		e.checkDeref(st, fr, addr, x.Addr, x.Pos())
		e.checkAccess(st, fr, loc, true, x.Pos())
		e.siteStore(st, fr, loc, val, x.Pos())
		e.store(st, loc, val)
	case *ssa.UnOp:
		fr.regs[x] = e.unop(st, fr, x)
	case *ssa.BinOp:
		fr.regs[x] = e.binop(st, fr, x)
	case *ssa.FieldAddr:
		base := e.get(st, fr, x.X)
		e.checkDeref(st, fr, base, x.X, x.Pos())
		loc := e.ptrLoc(base)
		stt := loc.T.Underlying().(*types.Struct)
		off, _ := e.fieldOffset(stt, x.Field)
		nl := subLoc(loc, off, stt.Field(x.Field).Type())
		e.checkClassified(st, fr, nl, x.Pos())
		fn := fmt.Sprintf("fa!%s!%d", sanitize(typeKey(loc.T)), x.Field)
		e.smt.Declare(fn, []string{SU}, SU)
		t := mkApp(fn, base.term())
		st.assume(mkNot(mkEq(t, "nil")))
		fr.regs[x] = Val{T: x.Type(), L: []string{t}, R: []*Refine{{Loc: nl}}}
	case *ssa.Field:
		base := e.get(st, fr, x.X)
		stt := base.T.Underlying().(*types.Struct)
		off, n := e.fieldOffset(stt, x.Field)
		fr.regs[x] = base.sub(stt.Field(x.Field).Type(), off, n)
	case *ssa.IndexAddr:
		fr.regs[x] = e.indexAddr(st, fr, x)
	case *ssa.Index:
		base := e.get(st, fr, x.X)
		idx := e.get(st, fr, x.Index)
		if isString(base.T) {
			e.safety(st, "bounds", e.describe(x), mkAnd(mkCmp(">=", idx.term(), "0"), mkCmp("<", idx.term(), mkApp("strlen", base.term()))), x.Pos())
			e.smt.Declare("strat", []string{SU, SInt}, SInt)
			v := Val{T: x.Type(), L: []string{mkApp("strat", base.term(), idx.term())}}
			e.assumeTypeInv(st, v)
			fr.regs[x] = v
		} else {
			e.abstracted["Index(array)"]++
			fr.regs[x] = e.freshVal(st, x.Type(), "idx")
		}
	case *ssa.Lookup:
		fr.regs[x] = e.lookup(st, fr, x)
	case *ssa.MapUpdate:
		m := e.get(st, fr, x.Map)
		k := e.get(st, fr, x.Key)
		v := e.get(st, fr, x.Value)
		e.safety(st, "nil", "mapwrite:"+e.describe(x.Map), mkNot(mkEq(m.term(), "nil")), x.Pos())
		e.checkHashable(st, k, e.describe(x.Key), x.Pos())
		e.checkMapAccess(st, fr, x.Map, true, x.Pos())
		e.siteEvent(st, fr, "mapset", e.mapFieldClass(x.Map), map[string]Val{"$map": m, "$key": k, "$val": v}, x.Pos())
		e.mapStore(st, m, k, v, true)
	case *ssa.MakeMap:
		mt := x.Type().Underlying().(*types.Map)
		id := e.smt.Fresh("map", SU)
		e.freshObjs = append(e.freshObjs, id)
		st.assume(mkNot(mkEq(id, "nil")))
		pres, presSort, _, _, ksort := e.mapArrays(st, mt)
		e.setHeapArr(st, sanitize("MP!"+typeKey(mt)), presSort, mkStore(pres, id, fmt.Sprintf("((as const %s) false)", arraySort(ksort, SBool))))
		fr.regs[x] = Val{T: x.Type(), L: []string{id}}
	case *ssa.MakeSlice:
		ln := e.get(st, fr, x.Len)
		cp := e.get(st, fr, x.Cap)
		e.safety(st, "bounds", "make:"+e.describe(x.Len), mkAnd(mkCmp(">=", ln.term(), "0"), mkCmp("<=", ln.term(), cp.term())), x.Pos())
		base := e.smt.Fresh("mk", SU)
		st.assume(mkNot(mkEq(base, "nil")))
		e.allocatedNow(st, base)
		elem := x.Type().Underlying().(*types.Slice).Elem()
		e.zeroElems(st, base, elem)
		fr.regs[x] = Val{T: x.Type(), L: []string{base, "0", ln.term(), cp.term()}}
	case *ssa.MakeChan:
		id := e.smt.Fresh("chan", SU)
		st.assume(mkNot(mkEq(id, "nil")))
		st.freshChans = append(append([]string{}, st.freshChans...), id)
		for n := range st.heap {
			if strings.HasPrefix(n, "chanclosed!") {
				arr := e.heapArr(st, n, arraySort(SU, SBool))
				st.assume(mkNot(mkSelect(arr, id)))
			}
		}
		e.smt.Declare("chancap", []string{SU}, SInt)
		st.assume(mkEq(mkApp("chancap", id), e.get(st, fr, x.Size).term()))
		v := Val{T: x.Type(), L: []string{id}}
		e.siteEvent(st, fr, "makechan", "", map[string]Val{"$chan": v}, x.Pos())
		fr.regs[x] = v
	case *ssa.MakeClosure:
		var bind []Val
		for _, b := range x.Bindings {
			bind = append(bind, e.get(st, fr, b))
		}
		fr.regs[x] = e.funcVal(x.Fn.(*ssa.Function), bind)
		fr.regs[x] = Val{T: x.Type(), L: fr.regs[x].L, R: fr.regs[x].R}
	case *ssa.MakeInterface:
		fr.regs[x] = e.makeIface(st, e.get(st, fr, x.X), x.Type())
	case *ssa.ChangeInterface:
		v := e.get(st, fr, x.X)
		fr.regs[x] = Val{T: x.Type(), L: v.L, R: v.R}
	case *ssa.ChangeType:
		v := e.get(st, fr, x.X)
		fr.regs[x] = Val{T: x.Type(), L: v.L, R: v.R}
	case *ssa.Convert:
		fr.regs[x] = e.convert(st, fr, x)
	case *ssa.Extract:
		tup := e.get(st, fr, x.Tuple)
		tt := tup.T.(*types.Tuple)
		off, n := e.tupleOffset(tt, x.Index)
		fr.regs[x] = tup.sub(tt.At(x.Index).Type(), off, n)
	case *ssa.Slice:
		fr.regs[x] = e.slice(st, fr, x)
	case *ssa.TypeAssert:
		fr.regs[x] = e.typeAssert(st, fr, x)
	case *ssa.Range:
		m := e.get(st, fr, x.X)
		fr.iterMap[x] = m
		fr.regs[x] = Val{T: x.Type(), L: []string{"nil"}}
		if mt, ok := m.T.Underlying().(*types.Map); ok {
			_, _, _, _, ksort := e.mapArrays(st, mt)
			name := "rangevisited!" + sanitize(typeKey(mt.Key())) + "!" + x.Name() + "!" + sanitize(fr.fn.Name())
			e.heapArr(st, name, arraySort(ksort, SBool))
			e.setHeapArr(st, name, arraySort(ksort, SBool), fmt.Sprintf("((as const %s) false)", arraySort(ksort, SBool)))
		}
	case *ssa.Next:
		fr.regs[x] = e.next(st, fr, x)
	case *ssa.Send:
		ch := e.get(st, fr, x.Chan)
		v := e.get(st, fr, x.X)
		e.siteEvent(st, fr, "send", e.describe(x.Chan), map[string]Val{"$chan": ch, "$val": v}, x.Pos())
		e.chanInv(st, fr, x.Chan, v, true, "", x.Pos())
		e.checkSendClosed(st, x.Chan, ch, x.Pos())
	default:
		e.abstracted[fmt.Sprintf("%T", ins)]++
		if v, ok := ins.(ssa.Value); ok {
			fr.regs[v] = e.freshVal(st, v.Type(), "abs")
		}
	}
}

func (e *Engine) zeroElems(st *State, base string, elem types.Type) {
	for i, l := range e.flatten(elem) {
		name := e.heapArrayName("E", elem, i)
		so := arraySort(SU, arraySort(SInt, l.Sort))
		arr := e.heapArr(st, name, so)
		e.setHeapArr(st, name, so, mkStore(arr, base, fmt.Sprintf("((as const %s) %s)", arraySort(SInt, l.Sort), e.zeroLeaf(l))))
	}
}

func (e *Engine) checkDeref(st *State, fr *Frame, p Val, v ssa.Value, pos token.Pos) {
	if r := p.ref(0); r != nil && r.Loc != nil {
		return
	}
	pt, ok := p.T.Underlying().(*types.Pointer)
	if !ok {
		return
	}
	if !inRepo(pt.Elem()) {
		return
	}
	e.safety(st, "nil", "deref:"+e.describe(v), mkNot(mkEq(p.term(), "nil")), pos)
}

func (e *Engine) checkHashable(st *State, k Val, desc string, pos token.Pos) {
	if !isInterface(k.T) {
		return
	}
	if typeKey(k.T) == "reflect.Type" {
		return // every reflect.Type implementation is a comparable pointer (documented by package reflect)
	}
	if r := k.ref(0); r != nil && r.Box != nil {
		if types.Comparable(r.Box.T) {
			return
		}
	}
	e.safety(st, "assert", "hashable("+desc+")", mkApp("hashable", mkApp("typeof", k.term())), pos)
}

func (e *Engine) unop(st *State, fr *Frame, x *ssa.UnOp) Val {
	a := e.get(st, fr, x.X)
	switch x.Op {
	case token.MUL:
		e.checkDeref(st, fr, a, x.X, x.Pos())
		loc := e.ptrLoc(a)
		e.checkAccess(st, fr, loc, false, x.Pos())
		if loc.Kind == LCell && loc.Cell.arr {
			e.abstracted["load(array)"]++
			return e.freshVal(st, x.Type(), "arrval")
		}
		v := e.load(st, loc)
		if loc.Kind != LCell {
			e.assumeLoadInv(st, v)
		}
		return v
	case token.NOT:
		return Val{T: x.Type(), L: []string{mkNot(a.term())}}
	case token.SUB:
		if e.sortOf(a) == SReal {
			return Val{T: x.Type(), L: []string{"(- " + a.term() + ")"}}
		}
		if v, ok := intLit(a.term()); ok {
			return Val{T: x.Type(), L: []string{mkInt(-v)}}
		}
		return Val{T: x.Type(), L: []string{"(- " + a.term() + ")"}}
	case token.ARROW:
		ch := a
		elem := ch.T.Underlying().(*types.Chan).Elem()
		v := e.freshVal(st, elem, "recv")
		okT := e.smt.Fresh("recvok", SBool)
		e.recvFactsFor(st, x.X, ch, okT)
		e.neverClosedRecv(st, x.X, okT)
		e.chanInv(st, fr, x.X, v, false, okT, x.Pos())
		e.siteEvent(st, fr, "recv", e.describe(x.X), map[string]Val{"$chan": ch, "$val": v, "$ok": boolVal(okT), "$blocking": boolVal("true")}, x.Pos())
		if x.CommaOk {
			out := Val{T: x.Type(), L: append(append([]string{}, v.L...), okT)}
			return out
		}
		return v
	}
	e.abstracted["UnOp"+x.Op.String()]++
	return e.freshVal(st, x.Type(), "unop")
}

// assumeLoadInv assumes type invariants of values loaded from the heap (lengths non-negative etc.).
func (e *Engine) assumeLoadInv(st *State, v Val) {
	ls := e.flatten(v.T)
	for i, l := range ls {
		switch l.Role {
		case "base":
			e.existedBefore(st, v.L[i])
		case "off", "len":
			st.assume(mkCmp(">=", v.L[i], "0"))
		case "cap":
			st.assume(mkCmp(">=", v.L[i], v.L[i-1]))
		case "":
			if l.Sort == SInt {
				if lo, hi, ok := intRange(l.T); ok {
					if _, isLit := intLit(v.L[i]); !isLit {
						st.assume(mkAnd(mkCmp(">=", v.L[i], lo), mkCmp("<=", v.L[i], hi)))
					}
				}
			}
			if l.Sort == SU && isString(l.T) {
				st.assume(mkNot(mkEq(v.L[i], "nil")))
				st.assume(mkCmp(">=", mkApp("strlen", v.L[i]), "0"))
			}
		}
	}
}

func (e *Engine) binop(st *State, fr *Frame, x *ssa.BinOp) Val {
	a := e.get(st, fr, x.X)
	b := e.get(st, fr, x.Y)
	t := x.Type()
	switch x.Op {
	case token.EQL, token.NEQ:
		var c string
		if len(a.L) == len(b.L) {
			var cs []string
			for i := range a.L {
				cs = append(cs, mkEq(a.L[i], b.L[i]))
			}
			c = mkAnd(cs...)
			// comparing interfaces holding uncomparable dynamic types panics; not modelled (listed)
		} else {
			c = e.smt.Fresh("cmp", SBool)
		}
		if _, ok := a.T.Underlying().(*types.Slice); ok {
			// slice compared with nil
			c = mkEq(a.L[0], "nil")
			if len(b.L) == 4 && b.L[0] != "nil" {
				c = mkEq(b.L[0], "nil")
			}
		}
		if isString(a.T) && len(a.L) == 1 && len(b.L) == 1 {
			// comparison with the empty string is a statement about the length (s == "" <=> len(s) == 0)
			empty := e.strConst("")
			if b.L[0] == empty {
				st.assume(mkEq(mkEq(a.L[0], empty), mkEq(mkApp("strlen", a.L[0]), "0")))
			} else if a.L[0] == empty {
				st.assume(mkEq(mkEq(b.L[0], empty), mkEq(mkApp("strlen", b.L[0]), "0")))
			}
		}
		if x.Op == token.NEQ {
			c = mkNot(c)
		}
		return Val{T: t, L: []string{c}}
	}
	so := e.sortOf(a)
	if isString(a.T) {
		switch x.Op {
		case token.ADD:
			r := mkApp("strcat", a.term(), b.term())
			st.assume(mkEq(mkApp("strlen", r), mkAdd(mkApp("strlen", a.term()), mkApp("strlen", b.term()))))
			st.assume(mkNot(mkEq(r, "nil")))
			return Val{T: t, L: []string{r}}
		default:
			return Val{T: t, L: []string{e.smt.Fresh("strcmp", SBool)}}
		}
	}
	if so == SReal {
		op := map[token.Token]string{token.ADD: "+", token.SUB: "-", token.MUL: "*", token.QUO: "/", token.LSS: "<", token.LEQ: "<=", token.GTR: ">", token.GEQ: ">="}[x.Op]
		if op == "" {
			e.abstracted["BinOp(real)"+x.Op.String()]++
			return e.freshVal(st, t, "binop")
		}
		return Val{T: t, L: []string{"(" + op + " " + a.term() + " " + b.term() + ")"}}
	}
	if so == SBool {
		switch x.Op {
		case token.AND, token.LAND:
			return Val{T: t, L: []string{mkAnd(a.term(), b.term())}}
		case token.OR, token.LOR:
			return Val{T: t, L: []string{mkOr(a.term(), b.term())}}
		}
	}
	if so == SInt {
		var r string
		switch x.Op {
		case token.ADD:
			r = mkAdd(a.term(), b.term())
		case token.SUB:
			r = mkSub(a.term(), b.term())
		case token.MUL:
			if v1, ok1 := intLit(a.term()); ok1 {
				if v2, ok2 := intLit(b.term()); ok2 {
					r = mkInt(v1 * v2)
					break
				}
			}
			r = "(* " + a.term() + " " + b.term() + ")"
		case token.QUO:
			e.safety(st, "assert", "divzero:"+e.describe(x.Y), mkNot(mkEq(b.term(), "0")), x.Pos())
			// Go truncates toward zero
			q := "(div " + a.term() + " " + b.term() + ")"
			r = mkIte(mkOr(mkCmp(">=", a.term(), "0"), mkEq("(mod "+a.term()+" "+b.term()+")", "0")), q,
				mkIte(mkCmp(">", b.term(), "0"), mkAdd(q, "1"), mkSub(q, "1")))
		case token.REM:
			e.safety(st, "assert", "divzero:"+e.describe(x.Y), mkNot(mkEq(b.term(), "0")), x.Pos())
			r = e.smt.Fresh("rem", SInt)
		case token.LSS:
			return Val{T: t, L: []string{mkCmp("<", a.term(), b.term())}}
		case token.LEQ:
			return Val{T: t, L: []string{mkCmp("<=", a.term(), b.term())}}
		case token.GTR:
			return Val{T: t, L: []string{mkCmp(">", a.term(), b.term())}}
		case token.GEQ:
			return Val{T: t, L: []string{mkCmp(">=", a.term(), b.term())}}
		default:
			e.abstracted["BinOp"+x.Op.String()]++
			return e.freshVal(st, t, "bits")
		}
		v := Val{T: t, L: []string{r}}
		if e.overflowOn(fr) {
			if lo, hi, ok := intRange(t); ok && (x.Op == token.ADD || x.Op == token.SUB || x.Op == token.MUL) {
				e.oblige(st, "overflow", e.describe(x), mkAnd(mkCmp(">=", r, lo), mkCmp("<=", r, hi)), nil, x.Pos())
			}
		}
		return v
	}
	e.abstracted["BinOp"+x.Op.String()]++
	return e.freshVal(st, t, "binop")
}

func (e *Engine) overflowOn(fr *Frame) bool { return false }

func (e *Engine) convert(st *State, fr *Frame, x *ssa.Convert) Val {
	a := e.get(st, fr, x.X)
	from, to := x.X.Type().Underlying(), x.Type().Underlying()
	fb, fok := from.(*types.Basic)
	tb, tok := to.(*types.Basic)
	if fok && tok {
		fi, ff := fb.Info()&types.IsInteger != 0, fb.Info()&types.IsFloat != 0
		ti, tf := tb.Info()&types.IsInteger != 0, tb.Info()&types.IsFloat != 0
		switch {
		case fi && ti:
			// machine truncation ignored (assumption: conversions between integer types do not lose value)
			return Val{T: x.Type(), L: a.L}
		case fi && tf:
			if _, ok := intLit(a.term()); ok {
				return Val{T: x.Type(), L: []string{toRealLit(a.term())}}
			}
			return Val{T: x.Type(), L: []string{"(to_real " + a.term() + ")"}}
		case ff && tf:
			return Val{T: x.Type(), L: a.L}
		case ff && ti:
			// Go spec: if the value cannot be represented the result is implementation-dependent.
			r := e.smt.Fresh("f2i", SInt)
			lo, hi, _ := intRange(x.Type())
			inRange := mkAnd("(>= "+a.term()+" (to_real "+lo+"))", "(< "+a.term()+" (+ (to_real "+hi+") 1.0))")
			trunc := mkIte("(>= "+a.term()+" 0.0)", "(to_int "+a.term()+")", "(- (to_int (- "+a.term()+")))")
			st.assume(mkImp(inRange, mkEq(r, trunc)))
			st.assume(mkAnd(mkCmp(">=", r, lo), mkCmp("<=", r, hi)))
			return Val{T: x.Type(), L: []string{r}}
		case fb.Info()&types.IsString != 0 && tb.Info()&types.IsString != 0:
			return Val{T: x.Type(), L: a.L}
		}
	}
	// string <-> []byte and friends
	if _, ok := to.(*types.Slice); ok && fok && fb.Info()&types.IsString != 0 {
		e.smt.Declare("bytesof", []string{SU}, SU)
		base := mkApp("bytesof", a.term())
		st.assume(mkNot(mkEq(base, "nil")))
		ln := mkApp("strlen", a.term())
		if sv, ok := e.strVals[a.term()]; ok {
			ln = mkInt(int64(len(sv)))
		}
		return Val{T: x.Type(), L: []string{base, "0", ln, ln}}
	}
	if _, ok := from.(*types.Slice); ok && tok && tb.Info()&types.IsString != 0 {
		e.smt.Declare("stringof", []string{SU, SInt, SInt}, SU)
		r := mkApp("stringof", a.L[0], a.L[1], a.L[2])
		st.assume(mkEq(mkApp("strlen", r), a.L[2]))
		st.assume(mkNot(mkEq(r, "nil")))
		return Val{T: x.Type(), L: []string{r}}
	}
	if len(e.flatten(x.Type())) == len(a.L) {
		return Val{T: x.Type(), L: a.L, R: a.R}
	}
	e.abstracted["Convert"]++
	return e.freshVal(st, x.Type(), "conv")
}

func (e *Engine) sliceParts(st *State, v Val) (base, off, ln, cp string) {
	return v.L[0], v.L[1], v.L[2], v.L[3]
}

func (e *Engine) indexAddr(st *State, fr *Frame, x *ssa.IndexAddr) Val {
	base := e.get(st, fr, x.X)
	idx := e.get(st, fr, x.Index)
	var elem types.Type
	var loc *Loc
	switch u := x.X.Type().Underlying().(type) {
	case *types.Slice:
		elem = u.Elem()
		e.safety(st, "bounds", e.describe(x), mkAnd(mkCmp(">=", idx.term(), "0"), mkCmp("<", idx.term(), base.L[2])), x.Pos())
		loc = &Loc{Kind: LElem, Obj: base.L[0], Root: elem, Idx: mkAdd(base.L[1], idx.term()), T: elem}
	case *types.Pointer:
		at := u.Elem().Underlying().(*types.Array)
		elem = at.Elem()
		e.safety(st, "bounds", e.describe(x), mkAnd(mkCmp(">=", idx.term(), "0"), mkCmp("<", idx.term(), mkInt(at.Len()))), x.Pos())
		bt := e.arrayBase(st, base)
		loc = &Loc{Kind: LElem, Obj: bt, Root: elem, Idx: idx.term(), T: elem}
	default:
		panic("indexAddr on " + x.X.Type().String())
	}
	e.smt.Declare("ea", []string{SU, SInt}, SU)
	t := mkApp("ea", loc.Obj, loc.Idx)
	return Val{T: x.Type(), L: []string{t}, R: []*Refine{{Loc: loc}}}
}

// arrayBase returns the backing-store term of a pointer-to-array value.
func (e *Engine) arrayBase(st *State, p Val) string {
	if r := p.ref(0); r != nil && r.Loc != nil && r.Loc.Kind == LCell && r.Loc.Cell.arr {
		return r.Loc.Cell.base
	}
	e.smt.Declare("arrbase", []string{SU}, SU)
	return mkApp("arrbase", p.term())
}

func (e *Engine) slice(st *State, fr *Frame, x *ssa.Slice) Val {
	base := e.get(st, fr, x.X)
	var lo, hi, mx string
	if x.Low != nil {
		lo = e.get(st, fr, x.Low).term()
	} else {
		lo = "0"
	}
	switch u := x.X.Type().Underlying().(type) {
	case *types.Slice:
		if x.High != nil {
			hi = e.get(st, fr, x.High).term()
		} else {
			hi = base.L[2]
		}
		mx = base.L[3]
		if x.Max != nil {
			m := e.get(st, fr, x.Max).term()
			e.safety(st, "bounds", "slice3:"+e.describe(x.X), mkAnd(mkCmp("<=", hi, m), mkCmp("<=", m, base.L[3])), x.Pos())
			mx = m
		}
		e.safety(st, "bounds", e.describe(x.X)+"["+lo+":"+e.descOpt(x.High)+"]", mkAnd(mkCmp(">=", lo, "0"), mkCmp("<=", lo, hi), mkCmp("<=", hi, base.L[3])), x.Pos())
		return Val{T: x.Type(), L: []string{base.L[0], mkAdd(base.L[1], lo), mkSub(hi, lo), mkSub(mx, lo)}}
	case *types.Basic: // string
		if x.High != nil {
			hi = e.get(st, fr, x.High).term()
		} else {
			hi = mkApp("strlen", base.term())
		}
		e.safety(st, "bounds", e.describe(x.X)+"["+lo+":"+e.descOpt(x.High)+"]", mkAnd(mkCmp(">=", lo, "0"), mkCmp("<=", lo, hi), mkCmp("<=", hi, mkApp("strlen", base.term()))), x.Pos())
		e.smt.Declare("substr", []string{SU, SInt, SInt}, SU)
		r := mkApp("substr", base.term(), lo, hi)
		st.assume(mkEq(mkApp("strlen", r), mkSub(hi, lo)))
		st.assume(mkNot(mkEq(r, "nil")))
		return Val{T: x.Type(), L: []string{r}}
	case *types.Pointer:
		at := u.Elem().Underlying().(*types.Array)
		n := mkInt(at.Len())
		if x.High != nil {
			hi = e.get(st, fr, x.High).term()
		} else {
			hi = n
		}
		e.safety(st, "bounds", e.describe(x.X)+"["+lo+":"+e.descOpt(x.High)+"]", mkAnd(mkCmp(">=", lo, "0"), mkCmp("<=", lo, hi), mkCmp("<=", hi, n)), x.Pos())
		bt := e.arrayBase(st, base)
		return Val{T: x.Type(), L: []string{bt, lo, mkSub(hi, lo), mkSub(n, lo)}}
	}
	panic("slice of " + x.X.Type().String())
}

func (e *Engine) descOpt(v ssa.Value) string {
	if v == nil {
		return ""
	}
	return e.describe(v)
}

func (e *Engine) lookup(st *State, fr *Frame, x *ssa.Lookup) Val {
	m := e.get(st, fr, x.X)
	k := e.get(st, fr, x.Index)
	if isString(m.T) {
		e.safety(st, "bounds", e.describe(x), mkAnd(mkCmp(">=", k.term(), "0"), mkCmp("<", k.term(), mkApp("strlen", m.term()))), x.Pos())
		e.smt.Declare("strat", []string{SU, SInt}, SInt)
		v := Val{T: types.Typ[types.Uint8], L: []string{mkApp("strat", m.term(), k.term())}}
		e.assumeTypeInv(st, v)
		return v
	}
	mt := m.T.Underlying().(*types.Map)
	e.checkHashable(st, k, e.describe(x.Index), x.Pos())
	e.checkMapAccess(st, fr, x.X, false, x.Pos())
	pres := e.mapPresent(st, m, k)
	// a nil map has no entries
	pres = mkAnd(mkNot(mkEq(m.term(), "nil")), pres)
	raw := e.mapValue(st, m, k)
	zero := e.zeroVal(mt.Elem())
	val := Val{T: mt.Elem(), L: make([]string, len(raw.L)), R: raw.R}
	for i := range raw.L {
		val.L[i] = mkIte(pres, raw.L[i], zero.L[i])
	}
	e.assumeLoadInv(st, val)
	e.siteEvent(st, fr, "maplookup", e.mapFieldClass(x.X), map[string]Val{"$map": m, "$key": k, "$val": val, "$ok": boolVal(pres)}, x.Pos())
	if x.CommaOk {
		return Val{T: x.Type(), L: append(append([]string{}, val.L...), pres), R: append(append([]*Refine{}, padRefs(val)...), nil)}
	}
	return val
}

func padRefs(v Val) []*Refine {
	out := make([]*Refine, len(v.L))
	copy(out, v.R)
	return out
}

func (e *Engine) typeAssert(st *State, fr *Frame, x *ssa.TypeAssert) Val {
	v := e.get(st, fr, x.X)
	cond := e.typeTest(v, x.AssertedType)
	var res Val
	if isInterface(x.AssertedType) {
		res = Val{T: x.AssertedType, L: v.L, R: v.R}
	} else {
		res = e.unbox(v, x.AssertedType)
		if r := v.ref(0); r == nil || r.Box == nil {
			// values obtained by unboxing satisfy their type invariants when the test succeeds
			s2 := st.clone()
			e.assumeTypeInv(s2, res)
			for _, a := range s2.pc.list()[lenPc(st.pc):] {
				st.assume(mkImp(cond, a))
			}
		}
	}
	if x.CommaOk {
		zero := e.zeroVal(x.AssertedType)
		out := Val{T: x.Type(), L: make([]string, 0, len(res.L)+1)}
		for i := range res.L {
			out.L = append(out.L, mkIte(cond, res.L[i], zero.L[i]))
		}
		out.L = append(out.L, cond)
		out.R = append(padRefs(res), nil)
		return out
	}
	e.safety(st, "assert", "typeassert:"+e.describe(x), cond, x.Pos())
	st.assume(cond)
	return res
}

func lenPc(p *pcNode) int {
	if p == nil {
		return 0
	}
	return p.n
}

func (e *Engine) next(st *State, fr *Frame, x *ssa.Next) Val {
	rng := x.Iter.(*ssa.Range)
	m := fr.iterMap[rng]
	tt := x.Type().(*types.Tuple)
	okT := e.smt.Fresh("rangeok", SBool)
	out := Val{T: tt, L: []string{okT}}
	if x.IsString {
		out.L = append(out.L, e.freshVal(st, tt.At(1).Type(), "ri").L...)
		out.L = append(out.L, e.freshVal(st, tt.At(2).Type(), "rr").L...)
		return out
	}
	mt := m.T.Underlying().(*types.Map)
	e.checkMapAccess(st, fr, rng.X, false, x.Pos())
	k := e.freshVal(st, mt.Key(), "rk")
	st.assume(mkImp(okT, mkAnd(mkNot(mkEq(m.term(), "nil")), e.mapPresent(st, m, k))))
	// ghost: keys already visited by this iteration are never yielded again
	vis := "rangevisited!" + sanitize(typeKey(mt.Key()))
	_, _, _, _, ksort := e.mapArrays(st, mt)
	visArr := e.heapArr(st, vis+"!"+rng.Name()+"!"+sanitize(fr.fn.Name()), arraySort(ksort, SBool))
	kt := e.mapKeyTerm(k)
	st.assume(mkImp(okT, mkNot(mkSelect(visArr, kt))))
	// when the iteration ends every present key has been visited
	e.nq++
	qv := fmt.Sprintf("k!q%d", e.nq)
	st.assume(mkImp(mkNot(okT), fmt.Sprintf("(forall ((%s %s)) (=> %s %s))", qv, ksort,
		mkAnd(mkNot(mkEq(m.term(), "nil")), mkSelect(mkSelect(e.heapArr(st, sanitize("MP!"+typeKey(mt)), ""), m.term()), qv)), mkSelect(visArr, qv))))
	name := vis + "!" + rng.Name() + "!" + sanitize(fr.fn.Name())
	e.setHeapArr(st, name, arraySort(ksort, SBool), mkIte(okT, mkStore(visArr, kt, "true"), visArr))
	e.siteEvent(st, fr, "rangenext", e.mapFieldClass(rng.X), map[string]Val{"$map": m, "$key": k, "$ok": boolVal(okT)}, x.Pos())
	out.L = append(out.L, k.L...)
	if _, inv := tt.At(2).Type().(*types.Basic); inv && tt.At(2).Type().(*types.Basic).Kind() == types.Invalid {
		return out
	}
	val := e.mapValue(st, m, k)
	e.assumeLoadInv(st, val)
	out.L = append(out.L, val.L...)
	return out
}

// ---------- select ----------

func (e *Engine) execSelect(st *State, fr *Frame, x *ssa.Select, b *ssa.BasicBlock, rest int, pred *ssa.BasicBlock) {
	tt := x.Type().(*types.Tuple)
	// evaluate operands once
	type sc struct {
		ch, send Val
	}
	var cases []sc
	for _, s := range x.States {
		c := sc{ch: e.get(st, fr, s.Chan)}
		if s.Send != nil {
			c.send = e.get(st, fr, s.Send)
		}
		cases = append(cases, c)
	}
	n := len(x.States)
	nalts := n
	if !x.Blocking {
		nalts = n + 1
	}
	e.nchoice++
	choice := e.smt.Fresh("selchoice", SInt)
	var alts []func()
	for i := 0; i < nalts; i++ {
		i := i
		alts = append(alts, func() {
			s2 := st.clone()
			s2.assume(mkEq(choice, mkInt(int64(i))))
			out := Val{T: tt}
			idx := i
			if i == n {
				idx = -1
			}
			out.L = append(out.L, mkInt(int64(idx)))
			okT := "false"
			if idx >= 0 && x.States[idx].Dir == types.RecvOnly {
				okT = e.smt.Fresh("selok", SBool)
			}
			out.L = append(out.L, okT)
			// received values, one per receive state in order
			pos := 2
			for j, s := range x.States {
				if s.Dir != types.RecvOnly {
					continue
				}
				et := tt.At(pos).Type()
				pos++
				if j == idx {
					v := e.freshVal(s2, et, "selrecv")
					zero := e.zeroVal(et)
					for k := range v.L {
						out.L = append(out.L, mkIte(okT, v.L[k], zero.L[k]))
					}
					e.recvFactsFor(s2, s.Chan, cases[j].ch, okT)
					e.neverClosedRecv(s2, s.Chan, okT)
					e.chanInv(s2, fr, s.Chan, v, false, okT, x.Pos())
					blk := "true"
					if !x.Blocking {
						blk = "false"
					}
					e.siteEvent(s2, fr, "recv", e.describe(s.Chan), map[string]Val{"$chan": cases[j].ch, "$val": v, "$ok": boolVal(okT), "$blocking": boolVal(blk)}, x.Pos())
				} else {
					out.L = append(out.L, e.zeroVal(et).L...)
				}
			}
			if idx >= 0 {
				// a nil channel is never ready
				s2.assume(mkNot(mkEq(cases[idx].ch.term(), "nil")))
				if x.States[idx].Dir == types.SendOnly {
					e.siteEvent(s2, fr, "send", e.describe(x.States[idx].Chan), map[string]Val{"$chan": cases[idx].ch, "$val": cases[idx].send}, x.Pos())
					e.chanInv(s2, fr, x.States[idx].Chan, cases[idx].send, true, "", x.Pos())
					e.checkSendClosed(s2, x.States[idx].Chan, cases[idx].ch, x.Pos())
				}
			}
			fr.regs[x] = out
			e.execFrom(s2, fr, b, rest, pred)
		})
	}
	e.forkJoin(fr, b, alts)
}

// recvFacts: a successful receive from an unbuffered channel means the channel was not closed at that instant.
// neverClosedRecv: a receive from a channel class that the module never closes always yields a sent value.
func (e *Engine) neverClosedRecv(st *State, chv ssa.Value, okT string) {
	cls := e.chanClass(chv)
	cc := e.closedChanClasses()
	if cls != "" && !cc[cls] && !cc["?"] && okT != "false" && okT != "true" {
		st.assume(okT)
	}
}

func (e *Engine) recvFactsFor(st *State, chv ssa.Value, ch Val, okT string) {
	// a successful receive from an unbuffered channel means the channel was not closed at that instant
	cls := e.chanClass(chv)
	e.smt.Declare("chancap", []string{SU}, SInt)
	st.assume(mkImp(mkAnd(okT, mkEq(mkApp("chancap", ch.term()), "0")), mkNot(e.chanClosed(st, ch.term(), cls))))
}

func (e *Engine) recvFacts(st *State, ch Val, okT string) {
	e.smt.Declare("chancap", []string{SU}, SInt)
	_ = okT
}

// ---------- go ----------

func (e *Engine) execGo(st *State, fr *Frame, x *ssa.Go) {
	callee, args := e.callOperands(st, fr, &x.Call)
	name := e.calleeName(&x.Call, callee)
	if x.Call.IsInvoke() {
		args = append([]Val{callee}, args...)
	}
	sv := map[string]Val{"$callee": callee}
	for i, a := range args {
		sv[fmt.Sprintf("$%d", i)] = a
	}
	e.siteEvent(st, fr, "go", name, sv, x.Pos())
	if tf := e.fnOf(callee, &x.Call); tf != nil && e.isNewCode(tf) && e.contractFor(name) == nil {
		// a goroutine whose body did not exist when the contracts were written runs outside every contract
		e.oblige(st, "spawn", "new-goroutine-body-has-no-contract:"+simpleName(name), "false", nil, x.Pos())
	}
	e.bump(st, "spawned:"+name)
	st.spawned = true
	// contract preconditions of the spawned function are checked like a call
	if c := e.contractFor(name); c != nil && !c.Extern {
		tf := e.fnOf(callee, &x.Call)
		if tf == nil {
			tf = e.fns[c.Func]
		}
		var bind []Val
		if r := callee.ref(0); r != nil {
			bind = r.Bind
		}
		e.checkRequiresB(st, fr, c, tf, args, bind, x.Pos(), "go")
	}
	// cells reachable by the goroutine become shared: havoc those it may write
	e.escapeClosure(st, callee, map[*ssa.Function]bool{})
	for _, a := range args {
		e.escapeClosure(st, a, map[*ssa.Function]bool{})
	}
}

// escapeClosure havocs cells that a function value handed to unknown code may write.
func (e *Engine) escapeClosure(st *State, v Val, seen map[*ssa.Function]bool) {
	for i := range v.L {
		r := v.ref(i)
		if r == nil || r.Fn == nil {
			continue
		}
		e.escapeFn(st, r.Fn, r.Bind, seen)
	}
}

func (e *Engine) escapeFn(st *State, fn *ssa.Function, bind []Val, seen map[*ssa.Function]bool) {
	if seen[fn] {
		return
	}
	seen[fn] = true
	written := e.writtenFreeVars(fn)
	for i, fv := range fn.FreeVars {
		if i >= len(bind) {
			break
		}
		if written[fv] {
			if r := bind[i].ref(0); r != nil && r.Loc != nil && r.Loc.Kind == LCell {
				c := r.Loc.Cell
				st.cells[c] = e.freshVal(st, c.T, "shared_"+c.name)
				if e.sharedCells == nil {
					e.sharedCells = map[*Cell]bool{}
				}
				e.sharedCells[c] = true
			}
		}
	}
}

// writtenFreeVars: which free variables (captured cells) does fn (or a closure it creates) store to?
func (e *Engine) writtenFreeVars(fn *ssa.Function) map[*ssa.FreeVar]bool {
	out := map[*ssa.FreeVar]bool{}
	var rootOf func(v ssa.Value) ssa.Value
	rootOf = func(v ssa.Value) ssa.Value {
		switch x := v.(type) {
		case *ssa.FieldAddr:
			return rootOf(x.X)
		case *ssa.IndexAddr:
			return rootOf(x.X)
		}
		return v
	}
	for _, b := range fn.Blocks {
		for _, ins := range b.Instrs {
			switch x := ins.(type) {
			case *ssa.Store:
				if fv, ok := rootOf(x.Addr).(*ssa.FreeVar); ok {
					out[fv] = true
				}
			case *ssa.MakeClosure:
				inner := e.writtenFreeVars(x.Fn.(*ssa.Function))
				for i, bnd := range x.Bindings {
					if fv, ok := bnd.(*ssa.FreeVar); ok && inner[x.Fn.(*ssa.Function).FreeVars[i]] {
						out[fv] = true
					}
				}
			case ssa.CallInstruction:
				// a captured cell whose address is passed to a call may be written by it
				for _, a := range x.Common().Args {
					if fv, ok := rootOf(a).(*ssa.FreeVar); ok {
						out[fv] = true
					}
					if mi, ok := a.(*ssa.MakeInterface); ok {
						if fv, ok := rootOf(mi.X).(*ssa.FreeVar); ok {
							out[fv] = true
						}
					}
				}
			}
		}
	}
	return out
}

func (e *Engine) bump(st *State, key string) {
	cur, ok := st.ghost[key]
	if !ok {
		cur = "0"
	}
	st.ghost[key] = mkAdd(cur, "1")
	if st.sort == nil {
		st.sort = map[string]string{}
	}
	st.sort[key] = SInt
}

func sortedKeys(m map[string]int) []string {
	var ks []string
	for k := range m {
		ks = append(ks, k)
	}
	sort.Strings(ks)
	return ks
}

// chanClass names where a channel value was read from: "T.f" for a struct field, "var:x" for a variable.
func (e *Engine) chanClass(v ssa.Value) string {
	switch x := v.(type) {
	case *ssa.UnOp:
		if x.Op != token.MUL {
			return ""
		}
		switch a := x.X.(type) {
		case *ssa.FieldAddr:
			st := a.X.Type().Underlying().(*types.Pointer).Elem()
			return typeKey(st) + "." + fieldName(st.Underlying().(*types.Struct).Field(a.Field))
		case *ssa.Alloc:
			return "var:" + e.allocName(a)
		case *ssa.FreeVar:
			return "var:" + e.vname(a.Parent(), a.Name())
		}
	case *ssa.Field:
		st := x.X.Type()
		return typeKey(st) + "." + fieldName(st.Underlying().(*types.Struct).Field(x.Field))
	case *ssa.Parameter:
		return "var:" + e.vname(x.Parent(), x.Name())
	case *ssa.ChangeType:
		return e.chanClass(x.X)
	}
	return ""
}

// closedClasses: every channel class on which the module executes close() (whole-module syntactic scan, every run).
func (e *Engine) closedChanClasses() map[string]bool {
	if e.closedCls != nil {
		return e.closedCls
	}
	e.closedCls = map[string]bool{}
	for _, fn := range e.fns {
		for _, b := range fn.Blocks {
			for _, ins := range b.Instrs {
				ci, ok := ins.(ssa.CallInstruction)
				if !ok {
					continue
				}
				if bi, ok := ci.Common().Value.(*ssa.Builtin); ok && bi.Name() == "close" {
					cls := e.chanClass(ci.Common().Args[0])
					if cls == "" {
						cls = "?"
					}
					e.closedCls[cls] = true
				}
			}
		}
	}
	return e.closedCls
}

func (e *Engine) checkSendClosed(st *State, chv ssa.Value, ch Val, pos token.Pos) {
	cls := e.chanClass(chv)
	cc := e.closedChanClasses()
	if cls != "" && !cc[cls] && !cc["?"] {
		e.neverClosedSends[cls]++
		return
	}
	e.safety(st, "assert", "send-on-closed:"+e.describe(chv), mkNot(e.chanClosed(st, ch.term(), cls)), pos)
}

// chanInv: a declared channel invariant is an obligation at every send and an assumption after every successful receive.
func (e *Engine) chanInv(st *State, fr *Frame, chv ssa.Value, v Val, send bool, okT string, pos token.Pos) {
	cls := e.chanClass(chv)
	cl, ok := e.spec.ChanInvs[cls]
	if !ok {
		return
	}
	env := &Env{e: e, st: st, old: e.entryOf(fr), fr: fr, site: map[string]Val{"$val": v}, pkg: fr.fn.Pkg.Pkg}
	t, err := e.EvalBool(env, cl.E)
	if err != nil {
		e.specError(fr, "channel invariant of %s: %v", cls, err)
		return
	}
	if send {
		e.oblige(st, "chaninv", cls+":"+cl.Label, t, cl.Tags, pos)
		return
	}
	if okT == "" {
		okT = "true"
	}
	st.assume(mkImp(okT, t))
}
