package main

// Hard-coded models of a few library functions whose effect cannot be written in the contract language:
// mutexes, sync.Once, and encoding/json decoding into a pointer. Everything here is part of the trusted prelude.

import (
	"fmt"
	"go/types"
	"strings"

	"golang.org/x/tools/go/ssa"
)

var libModelNames = []string{
	"(*sync.Mutex).Lock", "(*sync.Mutex).Unlock",
	"(*sync.Once).Do",
	"encoding/json.Unmarshal", "(*encoding/json.Decoder).Decode",
	"(reflect.Value).Call",
}

func (e *Engine) isLibModel(name string) bool {
	for _, n := range libModelNames {
		if n == name {
			return true
		}
	}
	return false
}

func (e *Engine) lockIdent(st *State, a Val) (key, cls string) {
	loc := e.ptrLoc(a)
	key = loc.key(e)
	switch loc.Kind {
	case LHeap:
		cls = e.fieldClass(loc)
	case LCell:
		cls = "var:" + loc.Cell.name
	case LGlobal:
		cls = "glob:" + loc.Glob
	}
	if cls == "" {
		cls = "lock:" + key
	}
	return
}

func (e *Engine) lockAllowed(held, nw string) bool {
	if m, ok := e.lockLess[held]; ok && m[nw] {
		return true
	}
	return false
}

func (e *Engine) libModel(st *State, fr *Frame, instr ssa.Instruction, name string, args []Val, resT types.Type, k callK) bool {
	pos := instr.Pos()
	switch name {
	case "(*sync.Mutex).Lock":
		key, cls := e.lockIdent(st, args[0])
		if st.holds(key) {
			e.oblige(st, "lockorder", "relock:"+cls, "false", []string{"C14"}, pos)
		}
		for _, h := range st.lockCls {
			if !e.lockAllowed(h, cls) {
				e.oblige(st, "lockorder", fmt.Sprintf("acquire %s while holding %s", cls, h), "false", []string{"C14"}, pos)
			} else {
				e.oblige(st, "lockorder", fmt.Sprintf("acquire %s while holding %s", cls, h), "true", []string{"C14"}, pos)
			}
		}
		st.locks = append(st.locks, key)
		st.lockCls = append(st.lockCls, cls)
		// guarded state may have been changed by other goroutines
		loc := e.ptrLoc(args[0])
		for _, g := range e.spec.Guards {
			if g.Lock != cls {
				continue
			}
			for _, f := range g.Fields {
				f = strings.TrimSuffix(f, "(w)")
				if strings.HasPrefix(f, "var:") {
					e.havocVarMap(st, fr, strings.TrimPrefix(f, "var:"))
					continue
				}
				e.havocField(st, f)
			}
			if g.Inv != nil && loc.Kind == LHeap {
				self := Val{T: types.NewPointer(loc.Root), L: []string{loc.Obj}}
				env := &Env{e: e, st: st, old: e.entryOf(fr), fr: fr, names: map[string]Val{"self": self}, pkg: fr.fn.Pkg.Pkg}
				t, err := e.EvalBool(env, g.Inv.E)
				if err != nil {
					e.specError(fr, "lock invariant of %s: %v", cls, err)
				} else {
					st.assume(t)
				}
			}
		}
		e.siteEvent(st, fr, "lock", cls, map[string]Val{"$lock": args[0]}, pos)
		k(st, Val{T: resT}, false)
		return true
	case "(*sync.Mutex).Unlock":
		key, cls := e.lockIdent(st, args[0])
		if !st.holds(key) {
			e.oblige(st, "lockorder", "unlock-of-unheld:"+cls, "false", []string{"C14"}, pos)
			k(st, Val{T: resT}, false)
			return true
		}
		e.oblige(st, "lockorder", "unlock-of-held:"+cls, "true", []string{"C14"}, pos)
		loc := e.ptrLoc(args[0])
		for _, g := range e.spec.Guards {
			if g.Lock != cls || g.Inv == nil || loc.Kind != LHeap {
				continue
			}
			if !e.wantTags(g.Inv.Tags) {
				continue
			}
			self := Val{T: types.NewPointer(loc.Root), L: []string{loc.Obj}}
			env := &Env{e: e, st: st, old: e.entryOf(fr), fr: fr, names: map[string]Val{"self": self}, pkg: fr.fn.Pkg.Pkg}
			t, err := e.EvalBool(env, g.Inv.E)
			if err != nil {
				e.specError(fr, "lock invariant of %s: %v", cls, err)
			} else {
				e.oblige(st, "inv", "lockinv:"+cls+":"+g.Inv.Label, t, g.Inv.Tags, pos)
			}
		}
		e.siteEvent(st, fr, "unlock", cls, map[string]Val{"$lock": args[0]}, pos)
		for i := len(st.locks) - 1; i >= 0; i-- {
			if st.locks[i] == key {
				st.locks = append(st.locks[:i:i], st.locks[i+1:]...)
				st.lockCls = append(st.lockCls[:i:i], st.lockCls[i+1:]...)
				break
			}
		}
		k(st, Val{T: resT}, false)
		return true
	case "(*sync.Once).Do":
		// either the function has run before (nothing happens) or it runs now, exactly once
		o := e.ptrLoc(args[0]).key(e)
		arr := e.heapArr(st, "oncedone", arraySort(SU, SBool))
		e.smt.Declare("onceid", []string{SU}, SU)
		oid := e.onceIdent(args[0])
		_ = o
		done := mkSelect(arr, oid)
		s1 := st.clone()
		s1.assume(done)
		st.assume(mkNot(done))
		e.setHeapArr(st, "oncedone", arraySort(SU, SBool), mkStore(arr, oid, "true"))
		f := args[1]
		alts := []func(){func() { k(s1, Val{T: resT}, false) }}
		if r := f.ref(0); r != nil && r.Fn != nil && len(r.Fn.Blocks) > 0 && e.canInline(fr, r.Fn) {
			alts = append(alts, func() {
				e.execFunction(st, r.Fn, nil, r.Bind, fr, fr.depth+1, nil, func(o Outcome) {
					k(o.st, Val{T: resT}, o.panicked)
				})
			})
		} else {
			alts = append(alts, func() {
				e.havocAll(st)
				k(st, Val{T: resT}, false)
			})
		}
		for _, a := range alts {
			a()
		}
		return true
	case "encoding/json.Unmarshal", "(*encoding/json.Decoder).Decode":
		target := args[len(args)-1]
		e.jsonDecodeInto(st, target)
		res := e.freshVal(st, resT, "jsonerr")
		k(st, res, false)
		return true
	case "(reflect.Value).Call":
		// user code: may panic, returns a slice of NumOut(type) values
		sp := st.clone()
		sp.panicVal = e.freshVal(sp, types.NewInterfaceType(nil, nil), "panicval")
		sp.assume(mkNot(mkEq(sp.panicVal.term(), "nil")))
		k(sp, Val{}, true)
		res := e.freshVal(st, resT, "callres")
		e.smt.Declare("NumOut", []string{SU}, SInt)
		e.smt.Declare("rtypeOf", []string{SU}, SU)
		st.assume(mkEq(res.L[2], mkApp("NumOut", mkApp("rtypeOf", args[0].term()))))
		st.assume(mkNot(mkEq(res.L[0], "nil")))
		// each returned Value has the corresponding result type of the called function
		{
			e.smt.Declare("OutT", []string{SU, SInt}, SU)
			vt := e.flatten(resT.Underlying().(*types.Slice).Elem())
			name := e.heapArrayName("E", resT.Underlying().(*types.Slice).Elem(), 0)
			arr := e.heapArr(st, name, arraySort(SU, arraySort(SInt, vt[0].Sort)))
			e.nq++
			q := fmt.Sprintf("i!q%d", e.nq)
			st.assume(fmt.Sprintf("(forall ((%s Int)) (=> (and (>= %s 0) (< %s %s)) (= (rtypeOf (select (select %s %s) (+ %s %s))) (OutT (rtypeOf %s) %s))))",
				q, q, q, res.L[2], arr, res.L[0], res.L[1], q, args[0].term(), q))
		}
		k(st, res, false)
		return true
	}
	return false
}

// havocVarMap havocs the contents of a map held in a (captured) local variable.
func (e *Engine) havocVarMap(st *State, fr *Frame, name string) {
	for f := fr; f != nil; f = f.parent {
		for i, fv := range f.fn.FreeVars {
			if (fv.Name() == name || e.vname(f.fn, fv.Name()) == name) && i < len(f.bindings) {
				if pt, ok := fv.Type().Underlying().(*types.Pointer); ok {
					if mt, ok := pt.Elem().Underlying().(*types.Map); ok {
						e.havocMapType(st, mt)
					}
				}
			}
		}
		if c, ok := f.names[name]; ok {
			if mt, ok := c.T.Underlying().(*types.Map); ok {
				e.havocMapType(st, mt)
			}
		}
	}
}

var jsonDynNames = []string{"bool", "float64", "string", "[]interface{}", "map[string]interface{}"}

// jsonDecodeInto models decoding arbitrary peer bytes into *target: the pointee becomes any value its type admits.
func (e *Engine) jsonDecodeInto(st *State, target Val) {
	p := target
	if isInterface(p.T) {
		r := p.ref(0)
		if r == nil || r.Box == nil {
			return // unknown target: nothing we track changes
		}
		p = *r.Box
	}
	pt, ok := p.T.Underlying().(*types.Pointer)
	if !ok {
		return
	}
	loc := e.ptrLoc(p)
	if loc.Kind == LCell && loc.Cell.arr {
		return
	}
	v := e.freshVal(st, pt.Elem(), "json")
	e.constrainJSON(st, v)
	e.store(st, loc, v)
}

func (e *Engine) constrainJSON(st *State, v Val) {
	for i, l := range e.flatten(v.T) {
		if l.Sort == SU && l.Role == "" {
			if it, ok := l.T.Underlying().(*types.Interface); ok && it.NumMethods() == 0 {
				var alts []string
				alts = append(alts, mkEq(v.L[i], "nil"))
				for _, n := range jsonDynNames {
					tv, err := types.Eval(e.fset, e.rootPkg, 0, n)
					if err != nil {
						continue
					}
					alts = append(alts, mkAnd(mkEq(mkApp("typeof", v.L[i]), e.typeConst(tv.Type)), mkNot(mkEq(v.L[i], "nil"))))
				}
				st.assume(mkOr(alts...))
			}
		}
	}
}

// onceIdent names a sync.Once by the address of the variable/field holding it.
func (e *Engine) onceIdent(p Val) string {
	loc := e.ptrLoc(p)
	switch loc.Kind {
	case LHeap:
		fn := "onceof!" + sanitize(e.fieldClass(loc))
		e.smt.Declare(fn, []string{SU}, SU)
		return mkApp(fn, loc.Obj)
	}
	return p.term()
}
