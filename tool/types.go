package main

// Flattening of Go types into SMT leaves, and type constants for interface reasoning.

import (
	"fmt"
	"go/types"
	"regexp"
	"strings"
)

type Leaf struct {
	Path string
	Sort string
	T    types.Type // Go type of the leaf (for refinements / zero values)
	Role string     // "", "base", "off", "len", "cap"
}

var opaqueNamed = map[string]bool{
	"reflect.Value":       true,
	"time.Time":           true,
	"sync.Mutex":          true,
	"sync.RWMutex":        true,
	"sync.Once":           true,
	"sync.WaitGroup":      true,
	"sync/atomic.Int64":   true,
	"bytes.Buffer":        true,
	"container/list.List": true,
}

func typeKey(t types.Type) string {
	s := canonAny(types.TypeString(t, func(p *types.Package) string { return shortPkg(p.Path()) }))
	if len(typeRenameRes) > 0 {
		s = canonRenamedTypes(s)
	}
	return s
}

var anyRe = regexp.MustCompile(`(^|[^A-Za-z0-9_.])any($|[^A-Za-z0-9_])`)

// canonAny: `any` is an alias of interface{}; type keys must not depend on which spelling the source uses.
func canonAny(s string) string {
	if !strings.Contains(s, "any") {
		return s
	}
	for {
		n := anyRe.ReplaceAllString(s, "${1}interface{}${2}")
		if n == s {
			return s
		}
		s = n
	}
}

const modPath = "github.com/filecoin-project/go-jsonrpc"

func shortPkg(path string) string {
	if path == modPath {
		return ""
	}
	if strings.HasPrefix(path, modPath+"/") {
		return path[len(modPath)+1:]
	}
	return path
}

// shortName canonicalises an ssa function name: the module path is dropped.
func shortName(full string) string {
	s := strings.ReplaceAll(full, modPath+"/", "")
	s = strings.ReplaceAll(s, modPath+".", "")
	if len(fnCurToOld) > 0 {
		b := strings.TrimSuffix(s, "$bound")
		if o, ok := fnCurToOld[b]; ok {
			return o + s[len(b):]
		}
	}
	return s
}

func isOpaque(t types.Type) bool {
	if n, ok := t.(*types.Named); ok {
		if n.Obj().Pkg() != nil {
			k := n.Obj().Pkg().Path() + "." + n.Obj().Name()
			if opaqueNamed[k] {
				return true
			}
		}
	}
	if a, ok := t.(*types.Alias); ok {
		return isOpaque(types.Unalias(a))
	}
	return false
}

type flatCache struct {
	m map[types.Type][]Leaf
}

func (e *Engine) flatten(t types.Type) []Leaf {
	if t == nil {
		return nil
	}
	if l, ok := e.flat.m[t]; ok {
		return l
	}
	var out []Leaf
	if isOpaque(t) {
		out = []Leaf{{"", SU, t, ""}}
		e.flat.m[t] = out
		return out
	}
	switch u := t.Underlying().(type) {
	case *types.Basic:
		switch {
		case u.Info()&types.IsBoolean != 0:
			out = []Leaf{{"", SBool, t, ""}}
		case u.Info()&types.IsInteger != 0:
			out = []Leaf{{"", SInt, t, ""}}
		case u.Info()&types.IsFloat != 0:
			out = []Leaf{{"", SReal, t, ""}}
		case u.Info()&types.IsComplex != 0:
			out = []Leaf{{"", SU, t, ""}}
		default: // string, unsafe pointer, untyped nil
			out = []Leaf{{"", SU, t, ""}}
		}
	case *types.Pointer, *types.Chan, *types.Map, *types.Signature, *types.Interface, *types.Array, *types.TypeParam:
		out = []Leaf{{"", SU, t, ""}}
	case *types.Slice:
		out = []Leaf{{".base", SU, t, "base"}, {".off", SInt, t, "off"}, {".len", SInt, t, "len"}, {".cap", SInt, t, "cap"}}
	case *types.Struct:
		for i := 0; i < u.NumFields(); i++ {
			f := u.Field(i)
			for _, l := range e.flatten(f.Type()) {
				out = append(out, Leaf{"." + f.Name() + l.Path, l.Sort, l.T, l.Role})
			}
		}
		if len(out) == 0 {
			// empty struct: keep zero leaves
		}
	case *types.Tuple:
		for i := 0; i < u.Len(); i++ {
			for _, l := range e.flatten(u.At(i).Type()) {
				out = append(out, Leaf{fmt.Sprintf("#%d%s", i, l.Path), l.Sort, l.T, l.Role})
			}
		}
	default:
		out = []Leaf{{"", SU, t, ""}}
	}
	e.flat.m[t] = out
	return out
}

// fieldOffset returns the leaf offset and leaf count of field i inside the flattening of struct type st.
func (e *Engine) fieldOffset(st *types.Struct, i int) (off, n int) {
	for k := 0; k < i; k++ {
		off += len(e.flatten(st.Field(k).Type()))
	}
	return off, len(e.flatten(st.Field(i).Type()))
}

func (e *Engine) tupleOffset(tt *types.Tuple, i int) (off, n int) {
	for k := 0; k < i; k++ {
		off += len(e.flatten(tt.At(k).Type()))
	}
	return off, len(e.flatten(tt.At(i).Type()))
}

func zeroOfSort(s string) string {
	switch s {
	case SInt:
		return "0"
	case SBool:
		return "false"
	case SReal:
		return "0.0"
	}
	return "nil"
}

// zeroLeaf is the zero value of a leaf: "" for strings is its own constant.
func (e *Engine) zeroLeaf(l Leaf) string {
	if l.Sort == SU && l.Role == "" {
		if b, ok := l.T.Underlying().(*types.Basic); ok && b.Info()&types.IsString != 0 {
			return e.strConst("")
		}
	}
	return zeroOfSort(l.Sort)
}

func (e *Engine) strConst(s string) string {
	if c, ok := e.strs[s]; ok {
		return c
	}
	n := fmt.Sprintf("str!%d!%s", len(e.strs), sanitize(truncate(s, 24)))
	e.smt.Declare(n, nil, SU)
	e.smt.Distinct(n)
	e.smt.AddFact(fmt.Sprintf("(= (strlen %s) %d)", n, len(s)))
	e.smt.AddFact(fmt.Sprintf("(not (= %s nil))", n))
	e.strs[s] = n
	e.strVals[n] = s
	return n
}

func truncate(s string, n int) string {
	if len(s) > n {
		return s[:n]
	}
	return s
}

// typeConst returns the SMT constant standing for a Go type (used by typeof / type assertions).
func (e *Engine) typeConst(t types.Type) string {
	t = types.Unalias(t)
	k := typeKey(t)
	if c, ok := e.tconsts[k]; ok {
		return c
	}
	n := "T!" + sanitize(k)
	// avoid collisions after sanitising
	for i := 0; ; i++ {
		cand := n
		if i > 0 {
			cand = fmt.Sprintf("%s!%d", n, i)
		}
		if e.smt.Declared(cand) == nil {
			n = cand
			break
		}
	}
	e.smt.Declare(n, nil, SU)
	e.smt.Distinct(n)
	e.tconsts[k] = n
	e.tconstTypes[n] = t
	if _, isIface := t.Underlying().(*types.Interface); !isIface {
		if types.Comparable(t) {
			e.smt.AddFact("(hashable " + n + ")")
		} else {
			e.smt.AddFact("(not (hashable " + n + "))")
		}
	}
	return n
}

func isInterface(t types.Type) bool {
	_, ok := t.Underlying().(*types.Interface)
	return ok
}

func isPointer(t types.Type) bool {
	_, ok := t.Underlying().(*types.Pointer)
	return ok
}

func isString(t types.Type) bool {
	b, ok := t.Underlying().(*types.Basic)
	return ok && b.Info()&types.IsString != 0
}

func isUnsigned(t types.Type) bool {
	b, ok := t.Underlying().(*types.Basic)
	return ok && b.Info()&types.IsUnsigned != 0
}

func intRange(t types.Type) (lo, hi string, ok bool) {
	b, isB := t.Underlying().(*types.Basic)
	if !isB || b.Info()&types.IsInteger == 0 {
		return "", "", false
	}
	switch b.Kind() {
	case types.Int, types.Int64:
		return "(- 9223372036854775808)", "9223372036854775807", true
	case types.Int32:
		return "(- 2147483648)", "2147483647", true
	case types.Int16:
		return "(- 32768)", "32767", true
	case types.Int8:
		return "(- 128)", "127", true
	case types.Uint, types.Uint64, types.Uintptr:
		return "0", "18446744073709551615", true
	case types.Uint32:
		return "0", "4294967295", true
	case types.Uint16:
		return "0", "65535", true
	case types.Uint8:
		return "0", "255", true
	}
	return "", "", false
}

// inRepo reports whether a named type is declared in the verified module.
func inRepo(t types.Type) bool {
	if p, ok := t.Underlying().(*types.Pointer); ok && t == types.Type(p) {
		t = p.Elem()
	}
	if n, ok := types.Unalias(t).(*types.Named); ok && n.Obj().Pkg() != nil {
		return strings.HasPrefix(n.Obj().Pkg().Path(), modPath)
	}
	return false
}
