package main

// Symbolic values, locations and the per-path execution state.

import (
	"fmt"
	"go/types"
	"os"
	"runtime/debug"
	"sort"
	"strings"

	"golang.org/x/tools/go/ssa"
)

// Refine carries executor-level knowledge about a single-leaf value.
type Refine struct {
	Loc  *Loc          // pointer: what it points to
	Fn   *ssa.Function // func: known target
	Bind []Val         // func: closure bindings (or bound receiver for $bound wrappers)
	Box  *Val          // interface: dynamic content
	Alts []RefAlt      // merged value: one of several known refinements, selected by path guards
}

type RefAlt struct {
	Guard string
	R     *Refine
}

type Val struct {
	T types.Type
	L []string  // leaf terms, in flatten(T) order
	R []*Refine // parallel to L (nil entries allowed); may be nil
}

func (v Val) ref(i int) *Refine {
	if v.R == nil || i >= len(v.R) {
		return nil
	}
	return v.R[i]
}

func (v Val) withRef(r *Refine) Val {
	v.R = []*Refine{r}
	return v
}

func (v Val) sub(t types.Type, off, n int) Val {
	out := Val{T: t, L: v.L[off : off+n]}
	if v.R != nil {
		out.R = v.R[off : off+n]
	}
	return out
}

func (v Val) term() string {
	if len(v.L) != 1 {
		panic(fmt.Sprintf("term() on value with %d leaves (type %v)", len(v.L), v.T))
	}
	return v.L[0]
}

type Cell struct {
	id   int
	T    types.Type
	name string
	heap bool
	arr  bool // cell created for a `new [N]T` array: accessed as a backing store
	base string
}

type LocKind int

const (
	LCell LocKind = iota
	LHeap
	LElem
	LGlobal
)

// Loc is a symbolic location: a root (cell, heap object, slice element, global) plus a leaf range inside the root's flattening.
type Loc struct {
	Kind LocKind
	Cell *Cell
	Obj  string     // LHeap: object (pointer) term; LElem: backing base term
	Root types.Type // type whose flattening names the heap arrays
	Idx  string     // LElem: absolute index term
	Off  int        // leaf offset into flatten(Root)
	T    types.Type // type stored at this location
	Glob string     // LGlobal: name
}

func (l *Loc) key(e *Engine) string {
	switch l.Kind {
	case LCell:
		return fmt.Sprintf("cell%d+%d", l.Cell.id, l.Off)
	case LHeap:
		return fmt.Sprintf("%s@%s+%d", typeKey(l.Root), l.Obj, l.Off)
	case LElem:
		return fmt.Sprintf("%s[%s][%s]+%d", typeKey(l.Root), l.Obj, l.Idx, l.Off)
	case LGlobal:
		return fmt.Sprintf("glob:%s+%d", l.Glob, l.Off)
	}
	return "?"
}

// fieldClass names a struct field as "<Type>.<field>" when the location is exactly a field of a heap struct.
func (e *Engine) fieldClass(l *Loc) string {
	st, ok := l.Root.Underlying().(*types.Struct)
	if !ok {
		return ""
	}
	off := 0
	for i := 0; i < st.NumFields(); i++ {
		n := len(e.flatten(st.Field(i).Type()))
		if l.Off >= off && l.Off < off+n || (n == 0 && l.Off == off && types.Identical(l.T, st.Field(i).Type())) {
			return typeKey(l.Root) + "." + fieldName(st.Field(i))
		}
		off += n
	}
	return ""
}

type pcNode struct {
	term string
	prev *pcNode
	n    int
}

func (p *pcNode) list() []string {
	out := make([]string, 0, 16)
	for x := p; x != nil; x = x.prev {
		out = append(out, x.term)
	}
	for i, j := 0, len(out)-1; i < j; i, j = i+1, j-1 {
		out[i], out[j] = out[j], out[i]
	}
	return out
}

type Event struct {
	Kind string // call, go, send, recv, close, mapset, mapdel, lock, unlock, store
	Name string
	Args []Val
}

type DeferredCall struct {
	common *ssa.CallCommon
	callee Val
	args   []Val
	instr  ssa.Instruction
}

type Frame struct {
	fn         *ssa.Function
	regs       map[ssa.Value]Val
	names      map[string]*Cell // source-named cells (params, locals, named results)
	params     []Val
	bindings   []Val // free var values (pointers to cells)
	defers     []DeferredCall
	depth      int
	contract   *Contract
	lets       map[string]Val // ghost bindings from site rules
	loopSeen   map[*ssa.BasicBlock]bool
	parent     *Frame
	entry      *State            // state at entry (for old())
	iterMap    map[ssa.Value]Val // range iterators -> map value
	out        func(Outcome)
	joins      []*joinPoint
	heapNames  map[string]*Loc
	heapAllocs map[*ssa.Alloc]*Loc
	allocs     map[*ssa.Alloc]*Cell
}

type State struct {
	pc         *pcNode
	cells      map[*Cell]Val
	heap       map[string]string // heap array name -> current term
	locks      []string          // held lock keys, acquisition order
	lockCls    []string          // parallel: lock class
	ghost      map[string]string // ghost counters / variables
	sort       map[string]string // ghost var sorts
	closedC    map[string]string // not used directly (closed is a heap array)
	panicking  bool
	panicVal   Val
	recovered  bool
	spawned    bool               // a goroutine has been started on this path
	heapRef    map[string]*Refine // refinements of heap-stored single-leaf values: key = loc key
	dead       bool
	defers     map[*Frame][]DeferredCall
	lets       map[string]Val
	loopLocks  map[string]string
	freshChans []string
}

func (s *State) clone() *State {
	n := &State{pc: s.pc, panicking: s.panicking, panicVal: s.panicVal, recovered: s.recovered, spawned: s.spawned}
	n.cells = make(map[*Cell]Val, len(s.cells))
	for k, v := range s.cells {
		n.cells[k] = v
	}
	n.heap = make(map[string]string, len(s.heap))
	for k, v := range s.heap {
		n.heap[k] = v
	}
	n.ghost = make(map[string]string, len(s.ghost))
	for k, v := range s.ghost {
		n.ghost[k] = v
	}
	n.sort = s.sort
	n.locks = append([]string{}, s.locks...)
	n.lockCls = append([]string{}, s.lockCls...)
	n.heapRef = make(map[string]*Refine, len(s.heapRef))
	for k, v := range s.heapRef {
		n.heapRef[k] = v
	}
	n.defers = make(map[*Frame][]DeferredCall, len(s.defers))
	for k, v := range s.defers {
		n.defers[k] = v
	}
	n.lets = s.lets
	n.loopLocks = s.loopLocks
	n.freshChans = s.freshChans
	return n
}

func (s *State) assume(t string) {
	if t == "true" {
		return
	}
	n := 1
	if s.pc != nil {
		n = s.pc.n + 1
	}
	s.pc = &pcNode{t, s.pc, n}
}

func (s *State) holds(key string) bool {
	for _, k := range s.locks {
		if k == key {
			return true
		}
	}
	return false
}

func (s *State) holdsClass(cls string) bool {
	for _, k := range s.lockCls {
		if k == cls {
			return true
		}
	}
	return false
}

func (s *State) lockSig() string {
	l := append([]string{}, s.locks...)
	sort.Strings(l)
	return strings.Join(l, ";")
}

// ---- heap arrays ----

func (e *Engine) heapArrayName(kind string, root types.Type, leaf int) string {
	return sanitize(fmt.Sprintf("%s!%s!%d", kind, typeKey(root), leaf))
}

// heapArr returns the current term of a heap array, declaring its initial version on first use.
func (e *Engine) heapArr(s *State, name string, sortOf string) string {
	if t, ok := s.heap[name]; ok {
		return t
	}
	init := name + "!0"
	e.smt.Declare(init, nil, sortOf)
	s.heap[name] = init
	e.heapSorts[name] = sortOf
	return init
}

func (e *Engine) setHeapArr(s *State, name, sortOf, newTerm string) {
	// bind to a fresh constant to keep terms small
	c := e.smt.Fresh(name, sortOf)
	s.assume(mkEq(c, newTerm))
	s.heap[name] = c
	e.heapSorts[name] = sortOf
}

func (e *Engine) havocHeapArr(s *State, name string) {
	if dbg := os.Getenv("GOVC_DEBUG_HAVOC"); dbg != "" && strings.Contains(name, dbg) {
		fmt.Fprintf(os.Stderr, "havoc %s\n%s\n", name, debug.Stack())
	}
	so, ok := e.heapSorts[name]
	if !ok {
		return
	}
	s.heap[name] = e.smt.Fresh(name, so)
}

// ---- fresh values ----

// freshVal creates an unconstrained value of type t and assumes its type invariants in s.
func (e *Engine) freshVal(s *State, t types.Type, hint string) Val {
	ls := e.flatten(t)
	v := Val{T: t, L: make([]string, len(ls))}
	for i, l := range ls {
		v.L[i] = e.smt.Fresh(hint+l.Path, l.Sort)
	}
	e.assumeTypeInv(s, v)
	return v
}

func (e *Engine) assumeTypeInv(s *State, v Val) {
	ls := e.flatten(v.T)
	for i, l := range ls {
		switch l.Role {
		case "base":
			e.existedBefore(s, v.L[i])
		case "off":
			s.assume(mkCmp(">=", v.L[i], "0"))
		case "len":
			s.assume(mkCmp(">=", v.L[i], "0"))
		case "cap":
			s.assume(mkCmp(">=", v.L[i], v.L[i-1]))
		case "":
			if l.Sort == SInt {
				if lo, hi, ok := intRange(l.T); ok {
					if _, isLit := intLit(v.L[i]); !isLit {
						s.assume(mkAnd(mkCmp(">=", v.L[i], lo), mkCmp("<=", v.L[i], hi)))
					}
				}
			}
			if l.Sort == SU && isString(l.T) {
				s.assume(mkCmp(">=", mkApp("strlen", v.L[i]), "0"))
				s.assume(mkNot(mkEq(v.L[i], "nil")))
			}
		}
	}
}

func (e *Engine) zeroVal(t types.Type) Val {
	ls := e.flatten(t)
	v := Val{T: t, L: make([]string, len(ls))}
	for i, l := range ls {
		v.L[i] = e.zeroLeaf(l)
	}
	return v
}

// ---- load / store through locations ----

func (e *Engine) load(s *State, l *Loc) Val {
	ls := e.flatten(l.T)
	v := Val{T: l.T, L: make([]string, len(ls))}
	switch l.Kind {
	case LCell:
		cv, ok := s.cells[l.Cell]
		if !ok {
			cv = e.zeroVal(l.Cell.T)
			s.cells[l.Cell] = cv
		}
		return cv.sub(l.T, l.Off, len(ls))
	case LHeap, LGlobal:
		rootLeaves := e.flatten(l.Root)
		for i := range ls {
			rl := rootLeaves[l.Off+i]
			if l.Kind == LGlobal {
				name := sanitize(fmt.Sprintf("G!%s!%d", l.Glob, l.Off+i))
				v.L[i] = e.heapArr(s, name, rl.Sort)
			} else {
				name := e.heapArrayName("H", l.Root, l.Off+i)
				arr := e.heapArr(s, name, arraySort(SU, rl.Sort))
				v.L[i] = mkSelect(arr, l.Obj)
			}
		}
		if len(ls) == 1 {
			if r, ok := s.heapRef[l.key(e)]; ok {
				v.R = []*Refine{r}
			}
		}
	case LElem:
		rootLeaves := e.flatten(l.Root)
		for i := range ls {
			rl := rootLeaves[l.Off+i]
			name := e.heapArrayName("E", l.Root, l.Off+i)
			arr := e.heapArr(s, name, arraySort(SU, arraySort(SInt, rl.Sort)))
			v.L[i] = mkSelect(mkSelect(arr, l.Obj), l.Idx)
		}
		if len(ls) == 1 {
			if r, ok := s.heapRef[l.key(e)]; ok {
				v.R = []*Refine{r}
			}
		}
	}
	return v
}

func (e *Engine) store(s *State, l *Loc, v Val) {
	ls := e.flatten(l.T)
	if len(v.L) != len(ls) {
		panic(fmt.Sprintf("store: leaf count mismatch: loc type %v (%d) value type %v (%d)", l.T, len(ls), v.T, len(v.L)))
	}
	switch l.Kind {
	case LCell:
		cv, ok := s.cells[l.Cell]
		if !ok {
			cv = e.zeroVal(l.Cell.T)
		}
		nl := append([]string{}, cv.L...)
		nr := make([]*Refine, len(nl))
		if cv.R != nil {
			copy(nr, cv.R)
		}
		for i := range ls {
			nl[l.Off+i] = v.L[i]
			nr[l.Off+i] = v.ref(i)
		}
		s.cells[l.Cell] = Val{T: l.Cell.T, L: nl, R: nr}
	case LHeap, LGlobal:
		rootLeaves := e.flatten(l.Root)
		for i := range ls {
			rl := rootLeaves[l.Off+i]
			if l.Kind == LGlobal {
				name := sanitize(fmt.Sprintf("G!%s!%d", l.Glob, l.Off+i))
				e.heapArr(s, name, rl.Sort)
				s.heap[name] = v.L[i]
			} else {
				name := e.heapArrayName("H", l.Root, l.Off+i)
				so := arraySort(SU, rl.Sort)
				arr := e.heapArr(s, name, so)
				e.setHeapArr(s, name, so, mkStore(arr, l.Obj, v.L[i]))
			}
		}
		if len(ls) == 1 {
			if r := v.ref(0); r != nil {
				s.heapRef[l.key(e)] = r
			} else {
				delete(s.heapRef, l.key(e))
			}
		}
	case LElem:
		rootLeaves := e.flatten(l.Root)
		for i := range ls {
			rl := rootLeaves[l.Off+i]
			name := e.heapArrayName("E", l.Root, l.Off+i)
			so := arraySort(SU, arraySort(SInt, rl.Sort))
			arr := e.heapArr(s, name, so)
			e.setHeapArr(s, name, so, mkStore(arr, l.Obj, mkStore(mkSelect(arr, l.Obj), l.Idx, v.L[i])))
		}
		if len(ls) == 1 {
			if r := v.ref(0); r != nil {
				s.heapRef[l.key(e)] = r
			} else {
				delete(s.heapRef, l.key(e))
			}
		}
	}
}

// subLoc narrows a location to a field / leaf range.
func subLoc(l *Loc, off int, t types.Type) *Loc {
	n := *l
	n.Off = l.Off + off
	n.T = t
	return &n
}

// ptrLoc returns the location a pointer value designates. Unknown pointers designate a heap object
// named by the pointer term itself.
func (e *Engine) ptrLoc(p Val) *Loc {
	if r := p.ref(0); r != nil && r.Loc != nil {
		return r.Loc
	}
	pt, ok := p.T.Underlying().(*types.Pointer)
	if !ok {
		panic(fmt.Sprintf("ptrLoc on non-pointer %v", p.T))
	}
	return &Loc{Kind: LHeap, Obj: p.term(), Root: pt.Elem(), T: pt.Elem()}
}

// ---- maps ----

func (e *Engine) mapArrays(s *State, mt *types.Map) (pres string, presSort string, vals []string, valSorts []string, ksort string) {
	kl := e.flatten(mt.Key())
	if len(kl) != 1 {
		// composite keys: collapse to U via an uninterpreted packing function (rare)
		ksort = SU
	} else {
		ksort = kl[0].Sort
	}
	presName := sanitize("MP!" + typeKey(mt))
	presSort = arraySort(SU, arraySort(ksort, SBool))
	pres = e.heapArr(s, presName, presSort)
	for i, l := range e.flatten(mt.Elem()) {
		n := sanitize(fmt.Sprintf("MV!%s!%d", typeKey(mt), i))
		so := arraySort(SU, arraySort(ksort, l.Sort))
		vals = append(vals, e.heapArr(s, n, so))
		valSorts = append(valSorts, so)
	}
	return
}

func (e *Engine) mapKeyTerm(k Val) string {
	if len(k.L) == 1 {
		return k.L[0]
	}
	// pack
	name := "packkey!" + sanitize(typeKey(k.T))
	var sorts []string
	for _, l := range e.flatten(k.T) {
		sorts = append(sorts, l.Sort)
	}
	e.smt.Declare(name, sorts, SU)
	return mkApp(name, k.L...)
}

func (e *Engine) mapPresent(s *State, m Val, k Val) string {
	mt := m.T.Underlying().(*types.Map)
	pres, _, _, _, _ := e.mapArrays(s, mt)
	return mkSelect(mkSelect(pres, m.term()), e.mapKeyTerm(k))
}

func (e *Engine) mapValue(s *State, m Val, k Val) Val {
	mt := m.T.Underlying().(*types.Map)
	_, _, vals, _, _ := e.mapArrays(s, mt)
	v := Val{T: mt.Elem(), L: make([]string, len(vals))}
	for i := range vals {
		v.L[i] = mkSelect(mkSelect(vals[i], m.term()), e.mapKeyTerm(k))
	}
	if len(v.L) == 1 {
		if r, ok := s.heapRef["map:"+typeKey(mt)+":"+m.term()+":"+e.mapKeyTerm(k)]; ok {
			v.R = []*Refine{r}
		}
	}
	return v
}

func (e *Engine) mapStore(s *State, m Val, k Val, v Val, present bool) {
	mt := m.T.Underlying().(*types.Map)
	pres, presSort, vals, valSorts, _ := e.mapArrays(s, mt)
	kt := e.mapKeyTerm(k)
	pv := "false"
	if present {
		pv = "true"
	}
	e.setHeapArr(s, sanitize("MP!"+typeKey(mt)), presSort, mkStore(pres, m.term(), mkStore(mkSelect(pres, m.term()), kt, pv)))
	if present {
		for i := range vals {
			n := sanitize(fmt.Sprintf("MV!%s!%d", typeKey(mt), i))
			e.setHeapArr(s, n, valSorts[i], mkStore(vals[i], m.term(), mkStore(mkSelect(vals[i], m.term()), kt, v.L[i])))
		}
		if len(v.L) == 1 {
			key := "map:" + typeKey(mt) + ":" + m.term() + ":" + kt
			if r := v.ref(0); r != nil {
				s.heapRef[key] = r
			} else {
				delete(s.heapRef, key)
			}
		}
	}
}

func (e *Engine) havocMapType(s *State, mt *types.Map) {
	e.mapArrays(s, mt)
	e.havocHeapArr(s, sanitize("MP!"+typeKey(mt)))
	for i := range e.flatten(mt.Elem()) {
		e.havocHeapArr(s, sanitize(fmt.Sprintf("MV!%s!%d", typeKey(mt), i)))
	}
	for k := range s.heapRef {
		if strings.HasPrefix(k, "map:"+typeKey(mt)+":") {
			delete(s.heapRef, k)
		}
	}
}

// Allocation clock: every backing store allocated on the path gets a strictly increasing timestamp, and every
// backing store merely *obtained* (parameter, load, havoc) is older than the clock at that moment. Hence a fresh
// allocation never aliases anything that existed before it.
func (e *Engine) nowTerm(s *State) string {
	if t, ok := s.ghost["$now"]; ok {
		return t
	}
	t := e.smt.Fresh("now", SInt)
	s.ghost["$now"] = t
	s.sort["$now"] = SInt
	return t
}

func (e *Engine) existedBefore(s *State, base string) {
	if base == "nil" {
		return
	}
	e.smt.Declare("allocTime", []string{SU}, SInt)
	s.assume(mkCmp("<", mkApp("allocTime", base), e.nowTerm(s)))
}

func (e *Engine) allocatedNow(s *State, base string) {
	e.smt.Declare("allocTime", []string{SU}, SInt)
	now := e.nowTerm(s)
	s.assume(mkEq(mkApp("allocTime", base), now))
	nn := e.smt.Fresh("now", SInt)
	s.assume(mkEq(nn, mkAdd(now, "1")))
	s.ghost["$now"] = nn
}
