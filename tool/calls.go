package main

// Calls: builtins, library models, contract application, inlining, site rules, guards, loops.

import (
	"fmt"
	"go/token"
	"go/types"
	"sort"
	"strings"

	"golang.org/x/tools/go/ssa"
)

type callK func(st *State, res Val, panicked bool)

func (e *Engine) callOperands(st *State, fr *Frame, c *ssa.CallCommon) (callee Val, args []Val) {
	callee = e.get(st, fr, c.Value)
	for _, a := range c.Args {
		args = append(args, e.get(st, fr, a))
	}
	return
}

func simpleName(n string) string {
	n = strings.TrimPrefix(n, "dyn:")
	if i := strings.LastIndexAny(n, ")."); i >= 0 {
		n = n[i+1:]
	}
	return strings.TrimPrefix(n, ".")
}

func (e *Engine) calleeName(c *ssa.CallCommon, callee Val) string {
	if c.IsInvoke() {
		return "(" + typeKey(c.Value.Type()) + ")." + c.Method.Name()
	}
	if f := c.StaticCallee(); f != nil {
		return shortName(f.String())
	}
	if b, ok := c.Value.(*ssa.Builtin); ok {
		return "builtin." + b.Name()
	}
	if r := callee.ref(0); r != nil && r.Fn != nil {
		return shortName(r.Fn.String())
	}
	return "dyn:" + e.describe(c.Value)
}

func (e *Engine) fnOf(callee Val, c *ssa.CallCommon) *ssa.Function {
	if c != nil {
		if f := c.StaticCallee(); f != nil {
			return f
		}
	}
	if r := callee.ref(0); r != nil && r.Fn != nil {
		return r.Fn
	}
	return nil
}

func matchName(name, pat string) bool {
	if pat == "" || pat == "*" {
		return true
	}
	for _, p := range strings.Split(pat, "|") {
		p = strings.TrimSpace(p)
		if name == p {
			return true
		}
		if strings.HasSuffix(name, p) {
			pre := name[:len(name)-len(p)]
			if pre == "" {
				return true
			}
			last := pre[len(pre)-1]
			if last == '.' || last == ')' || last == '/' || last == ':' || last == '(' || last == '*' {
				return true
			}
		}
	}
	return false
}

func (e *Engine) contractFor(name string) *Contract {
	name = strings.TrimSuffix(name, "$bound")
	if a, ok := e.spec.Aliases[name]; ok {
		name = a
	}
	if c, ok := e.spec.Contracts[name]; ok {
		return c
	}
	for _, c := range e.spec.Externs {
		if matchName(name, c.Func) {
			e.extUsed[c.Func]++
			return c
		}
	}
	return nil
}

// ---------- site rules ----------

func (e *Engine) siteRules(fr *Frame) []*SiteRule {
	var out []*SiteRule
	out = append(out, e.spec.Globals...)
	if e.sweepOnly {
		return out
	}
	// rules of the unit under verification apply to inlined code as well
	seen := map[*Contract]bool{}
	for f := fr; f != nil; f = f.parent {
		if f.contract != nil && !seen[f.contract] {
			seen[f.contract] = true
			out = append(out, f.contract.Sites...)
		}
	}
	return out
}

func (e *Engine) siteEvent(st *State, fr *Frame, sel, name string, vars map[string]Val, pos token.Pos) {
	for _, r := range e.siteRules(fr) {
		if r.Sel != sel || !matchName(name, r.Pat) {
			continue
		}
		r.Fired++
		env := &Env{e: e, st: st, old: e.entryOf(fr), fr: fr, site: vars, pkg: fr.fn.Pkg.Pkg}
		switch r.Action {
		case "assert":
			if !e.wantTags(r.Cl.Tags) {
				continue
			}
			g, err := e.EvalBool(env, r.Cl.E)
			if err != nil {
				e.specError(fr, "site rule %s %s: %v", r.Sel, r.Pat, err)
				continue
			}
			e.inGlobal = r.IsGlobal
			e.oblige(st, "site", r.Cl.Label, g, r.Cl.Tags, pos)
			e.inGlobal = false
		case "assume":
			g, err := e.EvalBool(env, r.Cl.E)
			if err != nil {
				e.specError(fr, "site rule %s %s: %v", r.Sel, r.Pat, err)
				continue
			}
			st.assume(g)
		case "let":
			v, err := e.Eval(env, r.Cl.E)
			if err != nil {
				e.specError(fr, "site rule let %s: %v", r.Var, err)
				continue
			}
			nl := make(map[string]Val, len(st.lets)+1)
			for k, x := range st.lets {
				nl[k] = x
			}
			nl[r.Var] = v
			st.lets = nl
		case "set":
			v, err := e.Eval(env, r.Cl.E)
			if err != nil {
				e.specError(fr, "site rule set %s: %v", r.Var, err)
				continue
			}
			st.ghost[r.Var] = v.term()
		case "inc":
			e.bump(st, r.Var)
		case "update":
			e.applyUpdate(st, fr, env, r.Upd)
		}
	}
}

func (e *Engine) applyUpdate(st *State, fr *Frame, env *Env, u *GhostUpdate) {
	d, ok := e.spec.GhostMaps[u.Map]
	if !ok {
		e.specError(fr, "update of unknown ghost map %s", u.Map)
		return
	}
	k, err := e.Eval(env, u.Key)
	if err != nil {
		e.specError(fr, "update %s: %v", u.Map, err)
		return
	}
	v, err := e.Eval(env, u.Val)
	if err != nil {
		e.specError(fr, "update %s: %v", u.Map, err)
		return
	}
	so := arraySort(d.Args[0], d.Res)
	arr := e.heapArr(st, "gm!"+d.Name, so)
	nv := mkStore(arr, k.term(), v.term())
	if u.When != nil {
		c, err := e.EvalBool(env, u.When)
		if err != nil {
			e.specError(fr, "update %s: %v", u.Map, err)
			return
		}
		nv = mkIte(c, nv, arr)
	}
	e.setHeapArr(st, "gm!"+d.Name, so, nv)
}

func (e *Engine) entryOf(fr *Frame) *State {
	for f := fr; f != nil; f = f.parent {
		if f.entry != nil {
			return f.entry
		}
	}
	return nil
}

func (e *Engine) specError(fr *Frame, format string, a ...interface{}) {
	msg := fmt.Sprintf(format, a...)
	e.specErrs = append(e.specErrs, fmt.Sprintf("%s: %s", e.unit, msg))
}

func (e *Engine) siteStore(st *State, fr *Frame, loc *Loc, val Val, pos token.Pos) {
	if loc.Kind != LHeap && loc.Kind != LCell {
		return
	}
	if !e.hasStoreRules(fr) {
		return
	}
	// a whole struct value assigned at once stores every field
	if stt, ok := loc.T.Underlying().(*types.Struct); ok && inRepo(loc.T) && len(val.L) == len(e.flatten(loc.T)) && types.Identical(loc.T, loc.Root) && loc.Off == 0 {
		off := 0
		for i := 0; i < stt.NumFields(); i++ {
			n := len(e.flatten(stt.Field(i).Type()))
			if n > 0 {
				fl := *loc
				fl.Off = loc.Off + off
				fl.T = stt.Field(i).Type()
				fv := val.sub(stt.Field(i).Type(), off, n)
				// a field that the copy leaves at its zero value is initialisation, not a store event
				if z := e.zeroVal(stt.Field(i).Type()); len(z.L) == len(fv.L) {
					same := true
					for j := range z.L {
						if z.L[j] != fv.L[j] {
							same = false
						}
					}
					if same {
						off += n
						continue
					}
				}
				e.siteStoreField(st, fr, &fl, typeKey(loc.T)+"."+fieldName(stt.Field(i)), fv, pos)
			}
			off += n
		}
		return
	}
	cls := e.fieldClass(loc)
	if cls == "" {
		return
	}
	e.siteStoreField(st, fr, loc, cls, val, pos)
}

func (e *Engine) siteStoreField(st *State, fr *Frame, loc *Loc, cls string, val Val, pos token.Pos) {
	owner := Val{T: types.NewPointer(loc.Root), L: []string{"nil"}}
	if loc.Kind == LHeap {
		owner.L = []string{loc.Obj}
	}
	e.siteEvent(st, fr, "store", cls, map[string]Val{"$val": val, "$obj": owner, "$chanclass": Val{T: types.Typ[types.String], L: []string{e.strConst(cls)}}}, pos)
}

func (e *Engine) hasStoreRules(fr *Frame) bool {
	for _, r := range e.siteRules(fr) {
		if r.Sel == "store" {
			return true
		}
	}
	return false
}

// ---------- guards ----------

func (e *Engine) guardFor(cls string, write bool) (*GuardDecl, bool) {
	for _, g := range e.spec.Guards {
		for _, f := range g.Fields {
			wo := strings.HasSuffix(f, "(w)")
			fn := strings.TrimSuffix(f, "(w)")
			if fn == cls {
				if wo && !write {
					return nil, false
				}
				return g, true
			}
		}
	}
	return nil, false
}

func (e *Engine) unitContract(fr *Frame) *Contract {
	var c *Contract
	for f := fr; f != nil; f = f.parent {
		if f.contract != nil {
			c = f.contract
		}
	}
	return c
}

func (e *Engine) lockKeyFor(loc *Loc, lockCls string) string {
	// lockCls = "T.f": the lock is field f of the same object
	st, ok := loc.Root.Underlying().(*types.Struct)
	if !ok {
		return ""
	}
	parts := strings.SplitN(lockCls, ".", 2)
	if len(parts) != 2 || parts[0] != typeKey(loc.Root) {
		return ""
	}
	for i := 0; i < st.NumFields(); i++ {
		if fieldName(st.Field(i)) == parts[1] {
			off, _ := e.fieldOffset(st, i)
			l := &Loc{Kind: LHeap, Obj: loc.Obj, Root: loc.Root, Off: off, T: st.Field(i).Type()}
			return l.key(e)
		}
	}
	return ""
}

func (e *Engine) checkAccess(st *State, fr *Frame, loc *Loc, write bool, pos token.Pos) {
	if loc.Kind != LHeap {
		return
	}
	cls := e.fieldClass(loc)
	if cls == "" {
		return
	}
	for _, o := range e.freshObjs {
		if o == loc.Obj {
			return // object allocated by this activation: not yet shared, and not part of the caller-visible frame
		}
	}
	if write {
		e.checkFrame(st, fr, cls, pos)
	}
	g, ok := e.guardFor(cls, write)
	uc := e.unitContract(fr)
	if uc != nil && uc.InitPhase && !st.spawned {
		return
	}
	if !ok {
		// fields of a type shared between goroutines must be classified: guarded, immutable after construction, or declared unsync
		if e.spec.SharedTypes[typeKey(loc.Root)] {
			_, unsync := e.spec.Unsync[cls]
			_, anyGuard := e.guardFor(cls, true)
			switch {
			case e.spec.Immutable[cls]:
				if write {
					e.oblige(st, "guard", "write to immutable shared field "+cls, "false", []string{"C14"}, pos)
				}
			case unsync || anyGuard:
			default:
				if _, isMutex := e.lockClassOfField(cls); !isMutex {
					e.oblige(st, "guard", "unclassified shared field "+cls, "false", []string{"C14"}, pos)
				}
			}
		}
		return
	}
	key := e.lockKeyFor(loc, g.Lock)
	goal := "false"
	if key != "" && st.holds(key) {
		goal = "true"
	}
	mode := "read"
	if write {
		mode = "write"
	}
	e.oblige(st, "guard", fmt.Sprintf("%s:%s under %s", mode, cls, g.Lock), goal, g.Tags, pos)
}

func (e *Engine) checkFrame(st *State, fr *Frame, cls string, pos token.Pos) {
	if strings.HasPrefix(cls, "var:") {
		return
	}
	uc := e.unitContract(fr)
	if uc == nil || !uc.HasMod {
		return
	}
	for _, m := range uc.Modifies {
		if m == cls || m == "*" {
			return
		}
	}
	e.oblige(st, "frame", "writes "+cls+" (not in modifies)", "false", nil, pos)
}

// mapFieldClass: if the map value was loaded from a struct field, the class of that field.
func (e *Engine) mapFieldClass(v ssa.Value) string {
	if u, ok := v.(*ssa.UnOp); ok && u.Op == token.MUL {
		if fa, ok := u.X.(*ssa.FieldAddr); ok {
			st := fa.X.Type().Underlying().(*types.Pointer).Elem()
			return typeKey(st) + "." + fieldName(st.Underlying().(*types.Struct).Field(fa.Field))
		}
		if a, ok := u.X.(*ssa.Alloc); ok {
			return "var:" + e.allocName(a)
		}
		if fv, ok := u.X.(*ssa.FreeVar); ok {
			return "var:" + e.vname(fv.Parent(), fv.Name())
		}
	}
	return ""
}

func (e *Engine) checkMapAccess(st *State, fr *Frame, v ssa.Value, write bool, pos token.Pos) {
	cls := e.mapFieldClass(v)
	if cls == "" {
		return
	}
	if write {
		e.checkFrame(st, fr, cls, pos)
	}
	g, ok := e.guardFor(cls, write)
	if !ok {
		return
	}
	uc := e.unitContract(fr)
	if uc != nil && uc.InitPhase && !st.spawned {
		return
	}
	goal := "false"
	if strings.HasPrefix(cls, "var:") {
		if st.holdsClass(g.Lock) {
			goal = "true"
		}
	} else {
		u := v.(*ssa.UnOp)
		fa := u.X.(*ssa.FieldAddr)
		base := e.get(st, fr, fa.X)
		loc := e.ptrLoc(base)
		key := e.lockKeyFor(loc, g.Lock)
		if key != "" && st.holds(key) {
			goal = "true"
		}
	}
	mode := "read"
	if write {
		mode = "write"
	}
	e.oblige(st, "guard", fmt.Sprintf("map-%s:%s under %s", mode, cls, g.Lock), goal, g.Tags, pos)
}

// ---------- calls ----------

func (e *Engine) execCall(st *State, fr *Frame, instr ssa.Instruction, c *ssa.CallCommon, k callK) {
	callee, args := e.callOperands(st, fr, c)
	e.applyCall(st, fr, instr, c, callee, args, "call", k)
}

func (e *Engine) applyCall(st *State, fr *Frame, instr ssa.Instruction, c *ssa.CallCommon, callee Val, args []Val, mode string, k callK) {
	if r := callee.ref(0); r != nil && r.Fn == nil && len(r.Alts) > 0 && !c.IsInvoke() && c.StaticCallee() == nil {
		// the callee is one of several known functions, depending on the path taken: one call per alternative
		for _, alt := range r.Alts {
			s2 := st.clone()
			s2.assume(alt.Guard)
			cv := callee
			cv.R = []*Refine{alt.R}
			e.applyCall(s2, fr, instr, c, cv, args, mode, k)
		}
		return
	}
	name := e.calleeName(c, callee)
	pos := instr.Pos()
	var resT types.Type = c.Signature().Results()
	if c.Signature().Results().Len() == 1 {
		resT = c.Signature().Results().At(0).Type()
	}
	allArgs := args
	if c.IsInvoke() {
		allArgs = append([]Val{callee}, args...)
	}
	fn := e.fnOf(callee, c)
	if fn != nil && strings.HasSuffix(fn.Name(), "$bound") {
		// bound method value: the receiver is the closure's binding
		if r := callee.ref(0); r != nil && len(r.Bind) == 1 {
			allArgs = append([]Val{r.Bind[0]}, args...)
			name = strings.TrimSuffix(name, "$bound")
			if m := e.fns[name]; m != nil {
				fn = m
			}
		}
	}
	// builtins
	if b, ok := c.Value.(*ssa.Builtin); ok {
		e.builtin(st, fr, instr, b, args, resT, k)
		return
	}
	// site rules and ghost call counters
	sv := map[string]Val{"$callee": callee}
	for i, a := range allArgs {
		sv[fmt.Sprintf("$%d", i)] = a
	}
	if e.baseExt != nil {
		if sf := c.StaticCallee(); sf != nil && statefulExternal(sf) && !e.baseExt[sf.String()] {
			// the contracts and the prelude speak only about the library functions the pinned source uses
			e.oblige(st, "spawn", "uses-a-library-function-no-contract-speaks-about:"+shortName(sf.String()), "false", nil, pos)
		} else if c.IsInvoke() && c.Method.Pkg() != nil {
			for _, sp := range statefulPkgs {
				if c.Method.Pkg().Path() == sp && !e.baseExt["invoke:"+c.Method.FullName()] {
					e.oblige(st, "spawn", "uses-a-library-function-no-contract-speaks-about:"+c.Method.FullName(), "false", nil, pos)
				}
			}
		}
	}
	e.siteEvent(st, fr, "call", name, sv, pos)
	if !c.IsInvoke() && c.StaticCallee() == nil {
		e.siteEvent(st, fr, "dyncall", name, sv, pos)
		if r := callee.ref(0); r == nil || r.Fn == nil {
			e.safety(st, "nil", "call:"+e.describe(c.Value), mkNot(mkEq(callee.term(), "nil")), pos)
		}
	}
	{
		k0 := k
		k = func(s2 *State, res Val, panicked bool) {
			if !panicked {
				rv := map[string]Val{"$result": res, "$callee": callee}
				for i, a := range allArgs {
					rv[fmt.Sprintf("$%d", i)] = a
				}
				if tt, ok := res.T.(*types.Tuple); ok {
					for i := 0; i < tt.Len(); i++ {
						off, n := e.tupleOffset(tt, i)
						rv[fmt.Sprintf("$result%d", i)] = res.sub(tt.At(i).Type(), off, n)
					}
				} else {
					rv["$result0"] = res
				}
				e.siteEvent(s2, fr, "ret", name, rv, pos)
			}
			k0(s2, res, panicked)
		}
	}
	e.bump(st, "calls:"+simpleName(name))
	if sn := simpleName(name); "calls:"+sn != "calls:"+name {
		e.bump(st, "calls:"+name)
	}
	// hard-coded library models
	if e.libModel(st, fr, instr, name, allArgs, resT, k) {
		return
	}
	if ct := e.contractFor(name); ct != nil && !ct.Inline {
		e.applyContract(st, fr, ct, name, fn, c.Signature(), allArgs, resT, pos, k)
		return
	}
	// function-type contract: the callee is an unknown value of a named func type that has a declared contract
	if fn == nil && !c.IsInvoke() {
		if nt, ok := types.Unalias(c.Value.Type()).(*types.Named); ok {
			if ct, ok := e.spec.FuncTypes[typeKey(nt)]; ok {
				e.extUsed["functype "+typeKey(nt)]++
				e.applyContract(st, fr, ct, name, nil, c.Signature(), allArgs, resT, pos, k)
				return
			}
		}
	}
	if fn != nil && len(fn.Blocks) > 0 && e.canInline(fr, fn) {
		e.inlined[shortName(fn.String())]++
		var bind []Val
		if r := callee.ref(0); r != nil {
			bind = r.Bind
		}
		if strings.HasSuffix(fn.Name(), "$bound") {
			bind = nil
		}
		var outs []Outcome
		e.execFunction(st, fn, allArgs, bind, fr, fr.depth+1, e.spec.Contracts[shortName(fn.String())], func(o Outcome) {
			if o.panicked {
				k(o.st, Val{}, true)
				return
			}
			o.ret.T = resT
			outs = append(outs, o)
		})
		// merge the callee's normal return paths (they diverged on branch conditions inside the callee)
		classes := map[string][]Outcome{}
		var order []string
		for _, o := range outs {
			sig := e.mergeSig(o.st)
			if _, ok := classes[sig]; !ok {
				order = append(order, sig)
			}
			classes[sig] = append(classes[sig], o)
		}
		for _, sig := range order {
			os := classes[sig]
			if len(os) == 1 || e.noMerge {
				for _, o := range os {
					k(o.st, o.ret, false)
				}
				continue
			}
			var sts []*State
			var ex [][]Val
			for _, o := range os {
				sts = append(sts, o.st)
				ex = append(ex, []Val{o.ret})
			}
			m, mex := e.mergeStates(sts, ex)
			k(m, mex[0], false)
		}
		return
	}
	// unknown callee
	e.havocCalls[name]++
	inRepoCallee := fn != nil && fn.Pkg != nil && strings.HasPrefix(fn.Pkg.Pkg.Path(), modPath)
	if inRepoCallee {
		e.havocAll(st)
	} else if c.IsInvoke() && inRepo(c.Value.Type()) && e.ifaceHasRepoImpl(c.Value.Type()) {
		// interface declared in the module: the callee is one of the module's implementations (their inferred
		// frames are applied) or user code (no effect on module state)
		impls := e.repoImplsOf(c.Value.Type(), c.Method.Name())
		if len(impls) == 0 {
			e.havocAll(st)
		}
		for _, f := range impls {
			e.applyMods(st, fr, e.fnMods(f), false)
		}
	}
	for _, a := range allArgs {
		e.havocPointee(st, a)
		e.escapeClosure(st, a, map[*ssa.Function]bool{})
	}
	k(st, e.freshVal(st, resT, "ret_"+simpleName(name)), false)
}

func (e *Engine) canInline(fr *Frame, fn *ssa.Function) bool {
	if fr.depth >= 6 {
		return false
	}
	for f := fr; f != nil; f = f.parent {
		if f.fn == fn {
			return false
		}
	}
	if fn.Parent() != nil {
		return true // closures
	}
	if fn.Pkg == nil || !strings.HasPrefix(fn.Pkg.Pkg.Path(), modPath) {
		return false
	}
	if c, ok := e.spec.Contracts[shortName(fn.String())]; ok && c.Inline {
		return true
	}
	// small leaf helpers
	n := 0
	for _, b := range fn.Blocks {
		n += len(b.Instrs)
	}
	return n <= 400
}

// havocPointee: a pointer to a local cell handed to unknown code may be written through.
func (e *Engine) havocPointee(st *State, a Val) {
	for i := range a.L {
		r := a.ref(i)
		if r == nil {
			continue
		}
		if r.Loc != nil && r.Loc.Kind == LCell && !r.Loc.Cell.arr {
			e.store(st, r.Loc, e.freshVal(st, r.Loc.T, "out_"+r.Loc.Cell.name))
		}
		if r.Box != nil {
			e.havocPointee(st, *r.Box)
		}
	}
}

func (e *Engine) havocAll(st *State) {
	names := make([]string, 0, len(e.heapSorts))
	for n := range e.heapSorts {
		names = append(names, n)
	}
	sort.Strings(names)
	for _, n := range names {
		if strings.HasPrefix(n, "rangevisited") {
			continue
		}
		if strings.HasPrefix(n, "G!") && !e.globalMutable(n) {
			// package-level variables that no function other than an initialiser stores to (scanned every run)
			continue
		}
		e.havocHeapArr(st, n)
	}
	st.heapRef = map[string]*Refine{}
}

// havocField havocs the heap arrays behind "T.f" (and the contents of maps of that field's type).
func (e *Engine) havocField(st *State, cls string) {
	parts := strings.SplitN(cls, ".", 2)
	if len(parts) != 2 {
		return
	}
	t := e.namedType(parts[0])
	if t == nil {
		e.warn("havocField: unknown type %s", parts[0])
		return
	}
	stt, ok := t.Underlying().(*types.Struct)
	if !ok {
		return
	}
	for i := 0; i < stt.NumFields(); i++ {
		if fieldName(stt.Field(i)) != parts[1] {
			continue
		}
		off, n := e.fieldOffset(stt, i)
		leaves := e.flatten(t)
		for k := off; k < off+n; k++ {
			name := e.heapArrayName("H", t, k)
			e.heapArr(st, name, arraySort(SU, leaves[k].Sort))
			e.havocHeapArr(st, name)
		}
		if mt, ok := stt.Field(i).Type().Underlying().(*types.Map); ok {
			e.havocMapType(st, mt)
		}
		for hk := range st.heapRef {
			if strings.HasPrefix(hk, typeKey(t)+"@") {
				delete(st.heapRef, hk)
			}
		}
	}
}

func (e *Engine) namedType(name string) types.Type {
	pk := ""
	tn := name
	if i := strings.LastIndex(name, "."); i >= 0 {
		pk, tn = name[:i], name[i+1:]
	}
	for _, p := range e.repoPkgs {
		if shortPkg(p.Path()) == pk {
			if o := p.Scope().Lookup(tn); o != nil {
				return o.Type()
			}
		}
	}
	return nil
}

// ---------- contract application ----------

func (e *Engine) bindParams(fn *ssa.Function, sig *types.Signature, args []Val) map[string]Val {
	names := map[string]Val{}
	if fn != nil && len(fn.Params) == len(args) {
		for i, p := range fn.Params {
			names[p.Name()] = args[i]
			names[e.vname(fn, p.Name())] = args[i]
		}
	} else if sig != nil {
		off := len(args) - sig.Params().Len()
		for i := 0; i < sig.Params().Len() && off+i < len(args) && off >= 0; i++ {
			if n := sig.Params().At(i).Name(); n != "" && n != "_" {
				names[n] = args[off+i]
			}
		}
	}
	if len(args) > 0 {
		names["recv"] = args[0]
	}
	for i, a := range args {
		names[fmt.Sprintf("arg%d", i)] = a
	}
	return names
}

func (e *Engine) checkRequires(st *State, fr *Frame, ct *Contract, fn *ssa.Function, args []Val, pos token.Pos, how string) {
	e.checkRequiresB(st, fr, ct, fn, args, nil, pos, how)
}

func (e *Engine) checkRequiresB(st *State, fr *Frame, ct *Contract, fn *ssa.Function, args []Val, bind []Val, pos token.Pos, how string) {
	var sig *types.Signature
	if fn != nil {
		sig = fn.Signature
	}
	names := e.bindParams(fn, sig, args)
	if fn != nil {
		// captured variables of a closure are visible to its contract by name
		for i, fv := range fn.FreeVars {
			if i < len(bind) {
				if r := bind[i].ref(0); r != nil && r.Loc != nil {
					names[fv.Name()] = e.load(st, r.Loc)
					names[e.vname(fn, fv.Name())] = names[fv.Name()]
				}
			}
		}
	}
	site := map[string]Val{}
	for i, a := range args {
		site[fmt.Sprintf("$%d", i)] = a
	}
	for _, cl := range ct.Requires {
		if !e.wantTags(cl.Tags) {
			continue
		}
		env := &Env{e: e, st: st, old: st, fr: nil, names: names, site: site, pkg: e.pkgOfContract(ct, fn)}
		g, err := e.EvalBool(env, cl.E)
		if err != nil {
			if len(args) > 0 && isInterface(args[0].T) {
				// call through an interface: conjuncts that speak about the concrete receiver cannot be evaluated here
				// (assumed, and reported); every other conjunct is an obligation of the call site like any precondition
				for i, cj := range splitConj(cl.E) {
					g, err := e.EvalBool(env, cj)
					if err != nil {
						e.warn("precondition %s of %s: conjunct %q not checked at an interface call site (assumed)", cl.Label, ct.Func, exprText(cj))
						continue
					}
					e.oblige(st, "pre", fmt.Sprintf("%s.%s#%d", simpleName(ct.Func), cl.Label, i+1), g, cl.Tags, pos)
				}
				continue
			}
			e.specError(fr, "requires of %s: %v", ct.Func, err)
			continue
		}
		e.oblige(st, "pre", simpleName(ct.Func)+"."+cl.Label, g, cl.Tags, pos)
	}
}

func (e *Engine) pkgOfContract(ct *Contract, fn *ssa.Function) *types.Package {
	if fn != nil && fn.Pkg != nil {
		return fn.Pkg.Pkg
	}
	return e.rootPkg
}

func (e *Engine) applyContract(st *State, fr *Frame, ct *Contract, name string, fn *ssa.Function, sig *types.Signature, args []Val, resT types.Type, pos token.Pos, k callK) {
	e.checkRequires(st, fr, ct, fn, args, pos, "call")
	names := e.bindParams(fn, sig, args)
	site := map[string]Val{}
	for i, a := range args {
		site[fmt.Sprintf("$%d", i)] = a
	}
	pre := st.clone()
	// effects
	for _, h := range ct.Havoc {
		var i int
		if _, err := fmt.Sscanf(h, "$%d", &i); err == nil && i < len(args) {
			e.havocTarget(st, args[i])
		}
	}
	if ct.HasMod {
		for _, m := range ct.Modifies {
			if m == "*" {
				e.havocAll(st)
			} else if strings.HasPrefix(m, "ghost:") {
				g := strings.TrimPrefix(m, "ghost:")
				st.ghost[g] = e.smt.Fresh("g_"+g, SInt)
			} else if strings.HasPrefix(m, "chanclosed") {
				for n := range e.heapSorts {
					if strings.HasPrefix(n, "chanclosed!") {
						e.havocHeapArr(st, n)
					}
				}
			} else {
				e.havocField(st, m)
			}
		}
	} else if !ct.Extern {
		if fn != nil && len(fn.Blocks) > 0 {
			// no declared frame: infer what the callee (transitively) may write from its current code
			e.applyMods(st, fr, e.fnMods(fn), false)
		} else {
			e.havocAll(st)
		}
	}
	for _, a := range args {
		e.escapeClosure(st, a, map[*ssa.Function]bool{})
	}
	if !ct.Extern || len(ct.Havoc) == 0 {
		// pointers to local cells passed to in-repo code with a contract: written only if listed in havoc;
		// for externs without a havoc list, pointees are conservatively havocked
		if ct.Extern && ct.Pure == "" && !ct.HasMod {
			for _, a := range args {
				e.havocPointee(st, a)
			}
		}
	}
	var res Val
	if ct.Pure != "" {
		d, ok := e.spec.SpecFns[ct.Pure]
		if !ok {
			e.specError(fr, "pure: unknown specfn %s", ct.Pure)
			res = e.freshVal(st, resT, "ret")
		} else {
			e.smt.Declare(d.Name, d.Args, d.Res)
			var ts []string
			for i := range d.Args {
				if i < len(args) && len(args[i].L) == 1 {
					ts = append(ts, args[i].L[0])
				}
			}
			if len(ts) != len(d.Args) {
				e.specError(fr, "pure %s: argument shape mismatch at call of %s", ct.Pure, name)
				res = e.freshVal(st, resT, "ret")
			} else {
				res = Val{T: resT, L: []string{mkApp(d.Name, ts...)}}
				e.assumeTypeInv(st, res)
			}
		}
	} else {
		res = e.freshVal(st, resT, "ret_"+simpleName(name))
	}
	for _, u := range ct.Updates {
		env := &Env{e: e, st: st, old: pre, names: names, site: site, result: &res, pkg: e.pkgOfContract(ct, fn)}
		e.applyUpdate(st, fr, env, u)
	}
	if ct.MayPanic {
		sp := st.clone()
		sp.panicVal = e.freshVal(sp, types.NewInterfaceType(nil, nil), "panicval")
		sp.assume(mkNot(mkEq(sp.panicVal.term(), "nil")))
		k(sp, Val{}, true)
	}
	for _, cl := range ct.Ensures {
		env := &Env{e: e, st: st, old: pre, names: names, site: site, result: &res, pkg: e.pkgOfContract(ct, fn), callSite: true}
		g, err := e.EvalBool(env, cl.E)
		if err != nil {
			// postconditions about the callee's own ghost state (call counters, ghost variables) say nothing to the caller
			if strings.Contains(err.Error(), "own activation") || strings.Contains(err.Error(), "unknown identifier") {
				continue
			}
			e.specError(fr, "ensures of %s: %v", ct.Func, err)
			continue
		}
		st.assume(g)
	}
	k(st, res, false)
}

// havocTarget overwrites what a pointer (possibly boxed in an interface) designates with a fresh value.
func (e *Engine) havocTarget(st *State, a Val) {
	if isInterface(a.T) {
		if r := a.ref(0); r != nil && r.Box != nil {
			e.havocTarget(st, *r.Box)
		}
		return
	}
	if _, ok := a.T.Underlying().(*types.Pointer); !ok {
		return
	}
	loc := e.ptrLoc(a)
	if loc.Kind == LCell && loc.Cell.arr {
		return
	}
	e.store(st, loc, e.freshVal(st, loc.T, "hv"))
}

// ---------- builtins ----------

func (e *Engine) builtin(st *State, fr *Frame, instr ssa.Instruction, b *ssa.Builtin, args []Val, resT types.Type, k callK) {
	pos := instr.Pos()
	switch b.Name() {
	case "len":
		a := args[0]
		switch a.T.Underlying().(type) {
		case *types.Slice:
			k(st, Val{T: resT, L: []string{a.L[2]}}, false)
		case *types.Map:
			e.smt.Declare("maplen", []string{SU}, SInt)
			v := Val{T: resT, L: []string{mkApp("maplen", a.term())}}
			st.assume(mkCmp(">=", v.term(), "0"))
			k(st, v, false)
		case *types.Chan:
			v := e.freshVal(st, resT, "chanlen")
			st.assume(mkCmp(">=", v.term(), "0"))
			k(st, v, false)
		default:
			if isString(a.T) {
				k(st, Val{T: resT, L: []string{mkApp("strlen", a.term())}}, false)
				return
			}
			v := e.freshVal(st, resT, "len")
			st.assume(mkCmp(">=", v.term(), "0"))
			k(st, v, false)
		}
	case "cap":
		a := args[0]
		if _, ok := a.T.Underlying().(*types.Slice); ok {
			k(st, Val{T: resT, L: []string{a.L[3]}}, false)
			return
		}
		if _, ok := a.T.Underlying().(*types.Chan); ok {
			e.smt.Declare("chancap", []string{SU}, SInt)
			v := Val{T: resT, L: []string{mkApp("chancap", a.term())}}
			st.assume(mkCmp(">=", v.term(), "0"))
			k(st, v, false)
			return
		}
		v := e.freshVal(st, resT, "cap")
		st.assume(mkCmp(">=", v.term(), "0"))
		k(st, v, false)
	case "append":
		k(st, e.appendModel(st, args[0], args[1], resT), false)
	case "copy":
		dst, src := args[0], args[1]
		n := e.smt.Fresh("copyn", SInt)
		srcLen := ""
		if isString(src.T) {
			srcLen = mkApp("strlen", src.term())
		} else {
			srcLen = src.L[2]
		}
		st.assume(mkEq(n, mkIte(mkCmp("<", dst.L[2], srcLen), dst.L[2], srcLen)))
		elem := dst.T.Underlying().(*types.Slice).Elem()
		for i, l := range e.flatten(elem) {
			name := e.heapArrayName("E", elem, i)
			so := arraySort(SU, arraySort(SInt, l.Sort))
			old := e.heapArr(st, name, so)
			nw := e.smt.Fresh(name, so)
			e.nq++
			q := fmt.Sprintf("j!q%d", e.nq)
			if !isString(src.T) {
				// copied range equals the source
				st.assume(fmt.Sprintf("(forall ((%s Int)) (=> (and (>= %s 0) (< %s %s)) (= (select (select %s %s) (+ %s %s)) (select (select %s %s) (+ %s %s)))))",
					q, q, q, n, nw, dst.L[0], dst.L[1], q, old, src.L[0], src.L[1], q))
			}
			// everything outside the destination window is unchanged
			e.nq++
			b2 := fmt.Sprintf("b!q%d", e.nq)
			st.assume(fmt.Sprintf("(forall ((%s U) (%s Int)) (=> (not (and (= %s %s) (>= %s %s) (< %s (+ %s %s)))) (= (select (select %s %s) %s) (select (select %s %s) %s))))",
				b2, q, b2, dst.L[0], q, dst.L[1], q, dst.L[1], n, nw, b2, q, old, b2, q))
			st.heap[name] = nw
		}
		k(st, Val{T: resT, L: []string{n}}, false)
	case "delete":
		m, key := args[0], args[1]
		e.checkHashable(st, key, "delete-key", pos)
		if call, ok := instr.(*ssa.Call); ok {
			e.checkMapAccess(st, fr, call.Call.Args[0], true, pos)
			e.siteEvent(st, fr, "mapdel", e.mapFieldClass(call.Call.Args[0]), map[string]Val{"$map": m, "$key": key}, pos)
		} else if d, ok := instr.(*ssa.Defer); ok {
			e.checkMapAccess(st, fr, d.Call.Args[0], true, pos)
			e.siteEvent(st, fr, "mapdel", e.mapFieldClass(d.Call.Args[0]), map[string]Val{"$map": m, "$key": key}, pos)
		}
		e.mapStore(st, m, key, Val{}, false)
		k(st, Val{T: resT}, false)
	case "close":
		ch := args[0]
		desc := "chan"
		if call, ok := instr.(*ssa.Call); ok {
			desc = e.describe(call.Call.Args[0])
		} else if d, ok := instr.(*ssa.Defer); ok {
			desc = e.describe(d.Call.Args[0])
		}
		cls := "?"
		if call, ok := instr.(*ssa.Call); ok {
			cls = e.chanClass(call.Call.Args[0])
		} else if d, ok := instr.(*ssa.Defer); ok {
			cls = e.chanClass(d.Call.Args[0])
		}
		if cls == "" {
			cls = "?"
		}
		e.siteEvent(st, fr, "close", desc, map[string]Val{"$chan": ch}, pos)
		e.safety(st, "assert", "close-of-closed:"+desc, mkNot(e.chanClosed(st, ch.term(), cls)), pos)
		e.safety(st, "nil", "close-of-nil:"+desc, mkNot(mkEq(ch.term(), "nil")), pos)
		e.setChanClosed(st, ch.term(), cls, "true")
		k(st, Val{T: resT}, false)
	case "recover":
		if st.panicking {
			st.panicking = false
			st.recovered = true
			v := st.panicVal
			if len(v.L) == 0 {
				v = e.freshVal(st, resT, "panicval")
				st.assume(mkNot(mkEq(v.term(), "nil")))
			}
			k(st, Val{T: resT, L: v.L, R: v.R}, false)
			return
		}
		k(st, e.zeroVal(resT), false)
	case "print", "println":
		k(st, Val{T: resT}, false)
	case "ssa:wrapnilchk":
		k(st, args[0], false)
	case "ssa:deferstack":
		k(st, Val{T: resT, L: []string{"nil"}}, false)
	case "min", "max":
		a, b2 := args[0], args[1]
		op := "<"
		if b.Name() == "max" {
			op = ">"
		}
		k(st, Val{T: resT, L: []string{mkIte("("+op+" "+a.term()+" "+b2.term()+")", a.term(), b2.term())}}, false)
	default:
		e.abstracted["builtin."+b.Name()]++
		k(st, e.freshVal(st, resT, b.Name()), false)
	}
}

func (e *Engine) appendModel(st *State, s, el Val, resT types.Type) Val {
	elem := s.T.Underlying().(*types.Slice).Elem()
	var elLen string
	if isString(el.T) {
		elLen = mkApp("strlen", el.term())
	} else {
		elLen = el.L[2]
	}
	newLen := mkAdd(s.L[2], elLen)
	base := e.smt.Fresh("app", SU)
	st.assume(mkNot(mkEq(base, "nil")))
	e.allocatedNow(st, base)
	cp := e.smt.Fresh("appcap", SInt)
	st.assume(mkCmp(">=", cp, newLen))
	for i, l := range e.flatten(elem) {
		name := e.heapArrayName("E", elem, i)
		so := arraySort(SU, arraySort(SInt, l.Sort))
		old := e.heapArr(st, name, so)
		nw := e.smt.Fresh("apparr", arraySort(SInt, l.Sort))
		e.nq++
		q := fmt.Sprintf("j!q%d", e.nq)
		st.assume(fmt.Sprintf("(forall ((%s Int)) (=> (and (>= %s 0) (< %s %s)) (= (select %s %s) (select (select %s %s) (+ %s %s)))))",
			q, q, q, s.L[2], nw, q, old, s.L[0], s.L[1], q))
		if !isString(el.T) {
			if n, ok := intLit(elLen); ok && n <= 4 {
				for j := int64(0); j < n; j++ {
					st.assume(mkEq(mkSelect(nw, mkAdd(s.L[2], mkInt(j))), mkSelect(mkSelect(old, el.L[0]), mkAdd(el.L[1], mkInt(j)))))
				}
			} else {
				e.nq++
				q2 := fmt.Sprintf("j!q%d", e.nq)
				st.assume(fmt.Sprintf("(forall ((%s Int)) (=> (and (>= %s 0) (< %s %s)) (= (select %s (+ %s %s)) (select (select %s %s) (+ %s %s)))))",
					q2, q2, q2, elLen, nw, s.L[2], q2, old, el.L[0], el.L[1], q2))
			}
		}
		e.setHeapArr(st, name, so, mkStore(old, base, nw))
	}
	return Val{T: resT, L: []string{base, "0", newLen, cp}}
}

// ---------- loops ----------

func (e *Engine) isLoopHead(b *ssa.BasicBlock) bool {
	for _, p := range b.Preds {
		if b.Dominates(p) {
			return true
		}
	}
	return false
}

func (e *Engine) loopOrdinal(b *ssa.BasicBlock) int {
	n := 0
	for _, x := range b.Parent().Blocks {
		if e.isLoopHead(x) {
			n++
		}
		if x == b {
			return n
		}
	}
	return 0
}

func loopBlocks(head *ssa.BasicBlock) map[*ssa.BasicBlock]bool {
	body := map[*ssa.BasicBlock]bool{head: true}
	var stack []*ssa.BasicBlock
	for _, p := range head.Preds {
		if head.Dominates(p) && !body[p] {
			body[p] = true
			stack = append(stack, p)
		}
	}
	for len(stack) > 0 {
		b := stack[len(stack)-1]
		stack = stack[:len(stack)-1]
		for _, p := range b.Preds {
			if !body[p] {
				body[p] = true
				stack = append(stack, p)
			}
		}
	}
	return body
}

type modSet struct {
	allocs    map[*ssa.Alloc]bool
	freevars  map[*ssa.FreeVar]bool
	fields    map[string]bool // "T.f"
	elems     map[string]types.Type
	maps      map[string]*types.Map
	ranges    map[*ssa.Range]bool
	callees   map[string]bool
	dyn       bool
	all       bool
	chans     bool
	closedCls map[string]bool
	full      map[string]bool
}

func newModSet() *modSet {
	return &modSet{allocs: map[*ssa.Alloc]bool{}, freevars: map[*ssa.FreeVar]bool{}, fields: map[string]bool{}, elems: map[string]types.Type{},
		maps: map[string]*types.Map{}, ranges: map[*ssa.Range]bool{}, callees: map[string]bool{}, closedCls: map[string]bool{}, full: map[string]bool{}}
}

func addrRoot(v ssa.Value) ssa.Value {
	for {
		switch x := v.(type) {
		case *ssa.FieldAddr:
			// a field of a pointer loaded from memory is a heap field, stop there
			if _, isLoad := x.X.(*ssa.UnOp); isLoad {
				return x
			}
			if _, isParam := x.X.(*ssa.Parameter); isParam {
				return x
			}
			v = x.X
		case *ssa.IndexAddr:
			return x
		default:
			return v
		}
	}
}

func (e *Engine) scanMods(ms *modSet, fn *ssa.Function, blocks map[*ssa.BasicBlock]bool, seen map[*ssa.Function]bool, top bool) {
	for _, b := range fn.Blocks {
		if blocks != nil && !blocks[b] {
			continue
		}
		for _, ins := range b.Instrs {
			switch x := ins.(type) {
			case *ssa.Store:
				switch r := addrRoot(x.Addr).(type) {
				case *ssa.Alloc:
					if top {
						ms.allocs[r] = true
					}
				case *ssa.FreeVar:
					if top {
						ms.freevars[r] = true
					} else {
						ms.dynFree(r)
					}
				case *ssa.FieldAddr:
					st := r.X.Type().Underlying().(*types.Pointer).Elem()
					ms.fields[typeKey(st)+"."+fieldName(st.Underlying().(*types.Struct).Field(r.Field))] = true
					ms.fieldTypes(st, r.Field)
				case *ssa.IndexAddr:
					var elem types.Type
					switch u := r.X.Type().Underlying().(type) {
					case *types.Slice:
						elem = u.Elem()
					case *types.Pointer:
						elem = u.Elem().Underlying().(*types.Array).Elem()
					}
					if elem != nil {
						ms.elems[typeKey(elem)] = elem
					}
				default:
					// store through an arbitrary pointer
					if pt, ok := x.Addr.Type().Underlying().(*types.Pointer); ok {
						ms.fields["*"+typeKey(pt.Elem())] = true
					}
				}
			case *ssa.MapUpdate:
				mt := x.Map.Type().Underlying().(*types.Map)
				ms.maps[typeKey(mt)] = mt
			case *ssa.Next:
				if r, ok := x.Iter.(*ssa.Range); ok {
					ms.ranges[r] = true
				}
			case *ssa.Send:
			case ssa.CallInstruction:
				if _, isGo := ins.(*ssa.Go); isGo {
					// a spawned goroutine runs concurrently: its effects are covered by the lock discipline
					// (guarded state is havocked at every Lock) and by the declared unsync/ownership assumptions
					continue
				}
				c := x.Common()
				if bi, ok := c.Value.(*ssa.Builtin); ok {
					switch bi.Name() {
					case "delete":
						mt := c.Args[0].Type().Underlying().(*types.Map)
						ms.maps[typeKey(mt)] = mt
					case "append", "copy":
						if sl, ok := c.Args[0].Type().Underlying().(*types.Slice); ok {
							ms.elems[typeKey(sl.Elem())] = sl.Elem()
						}
					case "close":
						cls := e.chanClass(c.Args[0])
						if cls == "" {
							cls = "?"
						}
						ms.closedCls[cls] = true
					}
					continue
				}
				// pointer arguments to local cells may be written by the callee (unless its declared frame says otherwise)
				declaredPure := false
				if f := c.StaticCallee(); f != nil {
					if ct := e.contractFor(shortName(f.String())); ct != nil && ct.HasMod && len(ct.Havoc) == 0 && !ct.Extern {
						declaredPure = true
					}
				}
				for _, a := range c.Args {
					if declaredPure {
						break
					}
					av := a
					if mi, ok := av.(*ssa.MakeInterface); ok {
						av = mi.X
					}
					switch r := addrRoot(av).(type) {
					case *ssa.Alloc:
						if top {
							ms.allocs[r] = true
						}
					case *ssa.FreeVar:
						if top {
							ms.freevars[r] = true
						}
					}
				}
				if c.IsInvoke() {
					name := "(" + typeKey(c.Value.Type()) + ")." + c.Method.Name()
					ms.callees[simpleName(name)] = true
					ms.full[name] = true
					if inRepo(c.Value.Type()) && e.ifaceHasRepoImpl(c.Value.Type()) {
						if ct := e.contractFor(name); ct != nil && ct.HasMod {
							e.addContractMods(ms, ct)
						} else {
							ms.all = true
						}
					}
					continue
				}
				if f := c.StaticCallee(); f != nil {
					name := shortName(f.String())
					ms.callees[simpleName(name)] = true
					ms.full[name] = true
					if e.isLibModel(name) {
						if strings.HasSuffix(name, ".Lock") {
							// guarded fields change at Lock
							ms.dyn = true
						}
						continue
					}
					if ct := e.contractFor(name); ct != nil && !ct.Inline {
						if ct.HasMod {
							e.addContractMods(ms, ct)
						} else if !ct.Extern {
							if len(f.Blocks) > 0 && !seen[f] {
								seen[f] = true
								e.scanMods(ms, f, nil, seen, false)
							} else if len(f.Blocks) == 0 {
								ms.all = true
							}
						}
						continue
					}
					if len(f.Blocks) > 0 && f.Pkg != nil && strings.HasPrefix(f.Pkg.Pkg.Path(), modPath) {
						if !seen[f] {
							seen[f] = true
							e.scanMods(ms, f, nil, seen, false)
						}
						continue
					}
					continue
				}
				// dynamic call: every closure created in this function (and its parents) may run
				ms.dyn = true
				ms.callees["*"] = true
			case *ssa.MakeClosure:
				f := x.Fn.(*ssa.Function)
				if !seen[f] {
					seen[f] = true
					sub := newModSet()
					e.scanMods(sub, f, nil, seen, false)
					ms.merge(sub)
					// captured variables written by the closure
					w := e.writtenFreeVars(f)
					for i, bnd := range x.Bindings {
						if i < len(f.FreeVars) && w[f.FreeVars[i]] {
							switch r := bnd.(type) {
							case *ssa.Alloc:
								if top {
									ms.allocs[r] = true
								}
							case *ssa.FreeVar:
								if top {
									ms.freevars[r] = true
								}
							}
						}
					}
				}
			}
		}
	}
}

func (ms *modSet) dynFree(r *ssa.FreeVar) {}

func (ms *modSet) fieldTypes(st types.Type, field int) {
	ft := st.Underlying().(*types.Struct).Field(field).Type()
	if mt, ok := ft.Underlying().(*types.Map); ok {
		_ = mt
	}
}

func (ms *modSet) merge(o *modSet) {
	for k := range o.fields {
		ms.fields[k] = true
	}
	for k, v := range o.elems {
		ms.elems[k] = v
	}
	for k, v := range o.maps {
		ms.maps[k] = v
	}
	for k := range o.callees {
		ms.callees[k] = true
	}
	ms.all = ms.all || o.all
	ms.dyn = ms.dyn || o.dyn
	ms.chans = ms.chans || o.chans
	for k := range o.closedCls {
		ms.closedCls[k] = true
	}
	for k := range o.full {
		ms.full[k] = true
	}
}

func (e *Engine) addContractMods(ms *modSet, ct *Contract) {
	for _, m := range ct.Modifies {
		switch {
		case m == "*":
			ms.all = true
		case m == "chanclosed":
			ms.chans = true
		case strings.HasPrefix(m, "ghost:"):
		default:
			ms.fields[m] = true
		}
	}
}

func (e *Engine) applyMods(st *State, fr *Frame, ms *modSet, loop bool) {
	if ms.all {
		e.havocAll(st)
	}
	for a := range ms.allocs {
		if l, ok := fr.heapAllocs[a]; ok {
			// a struct allocated in the heap arrays (escaping local): all of its fields may have been written
			e.store(st, l, e.freshVal(st, l.T, "loop_obj"))
			continue
		}
		if c, ok := fr.allocs[a]; ok {
			if c.arr {
				continue
			}
			st.cells[c] = e.freshVal(st, c.T, "loop_"+c.name)
		}
	}
	for fv := range ms.freevars {
		for i, x := range fr.fn.FreeVars {
			if x == fv && i < len(fr.bindings) {
				if r := fr.bindings[i].ref(0); r != nil && r.Loc != nil && r.Loc.Kind == LCell {
					st.cells[r.Loc.Cell] = e.freshVal(st, r.Loc.Cell.T, "loop_"+r.Loc.Cell.name)
				}
			}
		}
	}
	var fs []string
	for f := range ms.fields {
		fs = append(fs, f)
	}
	sort.Strings(fs)
	for _, f := range fs {
		if strings.HasPrefix(f, "*") {
			// stores through raw pointers of that type
			for n := range e.heapSorts {
				if strings.HasPrefix(n, sanitize("H!"+f[1:]+"!")) {
					e.havocHeapArr(st, n)
				}
			}
			continue
		}
		e.havocField(st, f)
	}
	for _, t := range ms.elems {
		for i := range e.flatten(t) {
			name := e.heapArrayName("E", t, i)
			if _, ok := e.heapSorts[name]; ok {
				e.havocHeapArr(st, name)
			}
		}
	}
	for _, mt := range ms.maps {
		e.havocMapType(st, mt)
	}
	if ms.chans || ms.closedCls["?"] {
		for n := range e.heapSorts {
			if strings.HasPrefix(n, "chanclosed!") {
				e.havocHeapArr(st, n)
			}
		}
	}
	for cls := range ms.closedCls {
		e.chanClosedArr(st, cls)
		e.havocHeapArr(st, sanitize("chanclosed!"+cls))
	}
	for r := range ms.ranges {
		for n := range e.heapSorts {
			if strings.HasPrefix(n, "rangevisited!") && strings.Contains(n, "!"+r.Name()+"!"+sanitize(fr.fn.Name())) {
				e.havocHeapArr(st, n)
			}
		}
	}
	// ghost maps updated by contracts of callees (extern `update` clauses)
	for _, ext := range e.spec.Externs {
		if len(ext.Updates) == 0 {
			continue
		}
		hit := ms.dyn && false
		for n := range ms.full {
			if matchName(n, ext.Func) {
				hit = true
				break
			}
		}
		if hit {
			for _, u := range ext.Updates {
				if d, ok := e.spec.GhostMaps[u.Map]; ok {
					e.heapArr(st, "gm!"+d.Name, arraySort(d.Args[0], d.Res))
					e.havocHeapArr(st, "gm!"+d.Name)
				}
			}
		}
	}
	if !loop {
		return // a callee cannot change the caller's ghost state
	}
	// ghost maps updated by site rules of the unit under verification
	for f := fr; f != nil; f = f.parent {
		if f.contract == nil {
			continue
		}
		for _, r := range f.contract.Sites {
			if r.Action == "update" && r.Upd != nil {
				if d, ok := e.spec.GhostMaps[r.Upd.Map]; ok {
					e.heapArr(st, "gm!"+d.Name, arraySort(d.Args[0], d.Res))
					e.havocHeapArr(st, "gm!"+d.Name)
				}
			}
		}
	}
	// ghost counters
	var gk []string
	for g := range st.ghost {
		gk = append(gk, g)
	}
	sort.Strings(gk)
	for _, g := range gk {
		if strings.HasPrefix(g, "calls:") || strings.HasPrefix(g, "spawned:") {
			n := simpleName(strings.SplitN(g, ":", 2)[1])
			if !ms.callees["*"] && !ms.callees[n] {
				continue
			}
			nv := e.smt.Fresh("g_"+g, SInt)
			st.assume(mkCmp(">=", nv, st.ghost[g]))
			st.ghost[g] = nv
			continue
		}
		so := st.sort[g]
		if so == "" {
			so = SInt
		}
		if g == "$now" {
			nv := e.smt.Fresh("now", SInt)
			st.assume(mkCmp(">=", nv, st.ghost[g]))
			st.ghost[g] = nv
			continue
		}
		st.ghost[g] = e.smt.Fresh("g_"+g, so)
	}
}

func (e *Engine) loopInvariants(fr *Frame, head *ssa.BasicBlock) []Clause {
	ct := fr.contract
	if ct == nil {
		ct = e.spec.Contracts[shortName(fr.fn.String())]
	}
	if ct == nil {
		return nil
	}
	return ct.Loops[e.loopOrdinal(head)]
}

// autoRangeInv recognises the `rangeindex` loop shape and returns the implicit invariant -1 <= idx <= len-1.
func (e *Engine) autoRangeInv(st *State, fr *Frame, head *ssa.BasicBlock) string {
	body := loopBlocks(head)
	if head.Comment == "rangeint.body" {
		// for i := range n: the hidden counter satisfies 0 <= iter < n at the head (checked on entry and on every back edge)
		for _, p := range head.Preds {
			if !body[p] || len(p.Instrs) == 0 {
				continue
			}
			iff, ok := p.Instrs[len(p.Instrs)-1].(*ssa.If)
			if !ok {
				continue
			}
			bo, ok := iff.Cond.(*ssa.BinOp)
			if !ok || bo.Op != token.LSS {
				continue
			}
			if yi, ok := bo.Y.(ssa.Instruction); ok && body[yi.Block()] {
				continue
			}
			for _, in := range head.Instrs {
				ld, ok := in.(*ssa.UnOp)
				if !ok || ld.Op != token.MUL {
					continue
				}
				al, ok := ld.X.(*ssa.Alloc)
				if !ok || al.Comment != "rangeint.iter" {
					continue
				}
				c, ok := fr.allocs[al]
				if !ok {
					continue
				}
				idx := e.load(st, &Loc{Kind: LCell, Cell: c, Root: c.T, T: c.T}).term()
				y := e.get(st, fr, bo.Y).term()
				return mkAnd(mkCmp(">=", idx, "0"), mkCmp("<", idx, y))
			}
		}
		return ""
	}
	for _, ins := range head.Instrs {
		bo, ok := ins.(*ssa.BinOp)
		if !ok || bo.Op != token.LSS {
			continue
		}
		add, ok := bo.X.(*ssa.BinOp)
		if !ok || add.Op != token.ADD {
			continue
		}
		ld, ok := add.X.(*ssa.UnOp)
		if !ok || ld.Op != token.MUL {
			continue
		}
		al, ok := ld.X.(*ssa.Alloc)
		if !ok || al.Comment != "rangeindex" {
			continue
		}
		yi, ok := bo.Y.(ssa.Instruction)
		if ok && body[yi.Block()] {
			continue
		}
		c, ok := fr.allocs[al]
		if !ok {
			continue
		}
		idx := e.load(st, &Loc{Kind: LCell, Cell: c, Root: c.T, T: c.T}).term()
		y := e.get(st, fr, bo.Y).term()
		return mkAnd(mkCmp(">=", idx, "(- 1)"), mkCmp("<=", idx, mkSub(y, "1")))
	}
	return ""
}

func (e *Engine) loopArrive(st *State, fr *Frame, from, head *ssa.BasicBlock) {
	invs := e.loopInvariants(fr, head)
	n := e.loopOrdinal(head)
	back := isBackEdge(from, head)
	phase := "entry"
	if back {
		phase = "preserve"
	}
	fname := ""
	if fr.parent != nil {
		fname = simpleName(shortName(fr.fn.String())) + "."
	}
	evalInvs := func(s *State, assert bool) {
		if a := e.autoRangeInv(s, fr, head); a != "" {
			if assert {
				e.oblige(s, "inv", fmt.Sprintf("%sloop%d:range-index-bounds/%s", fname, n, phase), a, nil, head.Instrs[0].Pos())
			} else {
				s.assume(a)
			}
		}
		for _, cl := range invs {
			if assert && !e.wantTags(cl.Tags) {
				continue
			}
			env := &Env{e: e, st: s, old: e.entryOf(fr), fr: fr, pkg: fr.fn.Pkg.Pkg}
			g, err := e.EvalBool(env, cl.E)
			if err != nil {
				e.specError(fr, "loop %d invariant %s: %v", n, cl.Label, err)
				continue
			}
			if assert {
				e.oblige(s, "inv", fmt.Sprintf("%sloop%d:%s/%s", fname, n, cl.Label, phase), g, cl.Tags, head.Instrs[0].Pos())
			} else {
				s.assume(g)
			}
		}
	}
	e.dropRangeIntVars(st, fr, head)
	evalInvs(st, true)
	key := fmt.Sprintf("%p", head)
	if back {
		if want, ok := st.loopLocks[key]; ok && want != st.lockSig() {
			e.oblige(st, "lockorder", fmt.Sprintf("loop%d:lockset-changes-across-iteration", n), "false", []string{"C14"}, head.Instrs[0].Pos())
		}
		return
	}
	nl := make(map[string]string, len(st.loopLocks)+1)
	for k, v := range st.loopLocks {
		nl[k] = v
	}
	nl[key] = st.lockSig()
	st.loopLocks = nl
	ms := e.modsOf(head)
	e.applyMods(st, fr, ms, true)
	e.dropRangeIntVars(st, fr, head)
	evalInvs(st, false)
	// phis at the loop head are loop-carried: havoc
	idx := 0
	for _, ins := range head.Instrs {
		if phi, ok := ins.(*ssa.Phi); ok {
			fr.regs[phi] = e.freshVal(st, phi.Type(), "phi")
			idx++
		} else {
			break
		}
	}
	e.cover(st, fmt.Sprintf("loop%d:body-reachable", n))
	e.execFrom(st, fr, head, idx, from)
}

func (e *Engine) modsOf(head *ssa.BasicBlock) *modSet {
	if ms, ok := e.modCache[head]; ok {
		return ms
	}
	ms := newModSet()
	seen := map[*ssa.Function]bool{head.Parent(): true}
	e.scanMods(ms, head.Parent(), loopBlocks(head), seen, true)
	if ms.dyn {
		// a dynamic call inside the loop may run any closure of this function family
		root := head.Parent()
		for root.Parent() != nil {
			root = root.Parent()
		}
		var walk func(f *ssa.Function)
		walk = func(f *ssa.Function) {
			for _, a := range f.AnonFuncs {
				sub := newModSet()
				e.scanMods(sub, a, nil, map[*ssa.Function]bool{a: true}, false)
				ms.merge(sub)
				walk(a)
			}
		}
		walk(root)
	}
	e.modCache[head] = ms
	return ms
}

// globalMutable reports whether the heap array of a package-level variable may change after initialisation.
func (e *Engine) globalMutable(arr string) bool {
	if e.mutGlobals == nil {
		e.mutGlobals = map[string]bool{}
		for _, fn := range e.fns {
			if fn.Name() == "init" || strings.HasPrefix(fn.Name(), "init#") || fn.Synthetic != "" && strings.Contains(fn.Synthetic, "initializer") {
				continue
			}
			for _, b := range fn.Blocks {
				for _, ins := range b.Instrs {
					if st, ok := ins.(*ssa.Store); ok {
						if g, ok := addrRoot(st.Addr).(*ssa.Global); ok {
							e.mutGlobals[sanitize("G!"+shortPkg(g.Pkg.Pkg.Path())+"."+g.Name())] = true
						}
					}
				}
			}
		}
	}
	for g := range e.mutGlobals {
		if strings.HasPrefix(arr, g+"!") {
			return true
		}
	}
	return false
}

// lockClassOfField: mutex / once fields are synchronisation objects themselves
func (e *Engine) lockClassOfField(cls string) (string, bool) {
	parts := strings.SplitN(cls, ".", 2)
	if len(parts) != 2 {
		return "", false
	}
	t := e.namedType(parts[0])
	if t == nil {
		return "", false
	}
	if st, ok := t.Underlying().(*types.Struct); ok {
		for i := 0; i < st.NumFields(); i++ {
			if fieldName(st.Field(i)) == parts[1] {
				k := typeKey(st.Field(i).Type())
				if k == "sync.Mutex" || k == "sync.Once" || k == "sync.RWMutex" || k == "sync.WaitGroup" || k == "sync.Map" || strings.HasPrefix(k, "sync/atomic.") {
					return k, true // synchronisation objects: safe for concurrent use by construction
				}
			}
		}
	}
	return "", false
}

// fnMods: the heap footprint a function may write, computed syntactically over its body and its callees.
func (e *Engine) fnMods(fn *ssa.Function) *modSet {
	if ms, ok := e.fnModCache[fn]; ok {
		return ms
	}
	ms := newModSet()
	e.fnModCache[fn] = ms // recursion guard
	e.scanMods(ms, fn, nil, map[*ssa.Function]bool{fn: true}, false)
	if ms.dyn {
		root := fn
		for root.Parent() != nil {
			root = root.Parent()
		}
		var walk func(f *ssa.Function)
		walk = func(f *ssa.Function) {
			for _, a := range f.AnonFuncs {
				sub := newModSet()
				e.scanMods(sub, a, nil, map[*ssa.Function]bool{a: true}, false)
				ms.merge(sub)
				walk(a)
			}
		}
		walk(root)
	}
	return ms
}

// checkClassified: taking the address of a field of a goroutine-shared type that has no synchronisation class
// (guarded / immutable / unsync / a mutex itself) is reported: new shared state must declare how it is protected.
func (e *Engine) checkClassified(st *State, fr *Frame, loc *Loc, pos token.Pos) {
	if loc.Kind != LHeap || !e.spec.SharedTypes[typeKey(loc.Root)] {
		return
	}
	for _, o := range e.freshObjs {
		if o == loc.Obj {
			return
		}
	}
	cls := e.fieldClass(loc)
	if cls == "" {
		return
	}
	if uc := e.unitContract(fr); uc != nil && uc.InitPhase && !st.spawned {
		return
	}
	if _, ok := e.guardFor(cls, true); ok {
		return
	}
	if _, ok := e.spec.Unsync[cls]; ok || e.spec.Immutable[cls] {
		return
	}
	if _, isMutex := e.lockClassOfField(cls); isMutex {
		return
	}
	e.oblige(st, "guard", "unclassified shared field "+cls, "false", []string{"C14"}, pos)
}

// ifaceHasRepoImpl: does any named type of the verified module implement this (module-declared) interface?
// Interfaces implemented only by user code (error codecs, marshalable errors) are treated like external calls.
func (e *Engine) ifaceHasRepoImpl(t types.Type) bool {
	it, ok := t.Underlying().(*types.Interface)
	if !ok {
		return false
	}
	k := typeKey(t)
	if v, ok := e.ifaceImplCache[k]; ok {
		return v
	}
	res := false
	for _, p := range e.repoPkgs {
		sc := p.Scope()
		for _, n := range sc.Names() {
			tn, ok := sc.Lookup(n).(*types.TypeName)
			if !ok || isInterface(tn.Type()) {
				continue
			}
			if types.Implements(tn.Type(), it) || types.Implements(types.NewPointer(tn.Type()), it) {
				res = true
			}
		}
	}
	e.ifaceImplCache[k] = res
	return res
}

func (e *Engine) repoImplsOf(t types.Type, method string) []*ssa.Function {
	it, ok := t.Underlying().(*types.Interface)
	if !ok {
		return nil
	}
	var out []*ssa.Function
	for _, p := range e.repoPkgs {
		sc := p.Scope()
		for _, n := range sc.Names() {
			tn, ok := sc.Lookup(n).(*types.TypeName)
			if !ok || isInterface(tn.Type()) {
				continue
			}
			for _, recv := range []types.Type{tn.Type(), types.NewPointer(tn.Type())} {
				if !types.Implements(recv, it) {
					continue
				}
				if sel := e.prog.MethodSets.MethodSet(recv).Lookup(p, method); sel != nil {
					if f := e.prog.MethodValue(sel); f != nil && len(f.Blocks) > 0 {
						out = append(out, f)
					}
				}
			}
		}
	}
	return out
}

// dropRangeIntVars: see loopArrive.
func (e *Engine) dropRangeIntVars(st *State, fr *Frame, head *ssa.BasicBlock) {
	if head.Comment != "rangeint.body" {
		return
	}
	{
		// the per-iteration variable of `for i := range n` is declared afresh from the counter: at the head it denotes
		// the counter's current value, not last iteration's copy
		for _, in := range head.Instrs {
			if a, ok := in.(*ssa.Alloc); ok && a.Referrers() != nil {
				for _, r := range *a.Referrers() {
					if sv, ok := r.(*ssa.Store); ok && sv.Addr == a {
						if ld, ok := sv.Val.(*ssa.UnOp); ok && ld.Op == token.MUL {
							if it, ok := ld.X.(*ssa.Alloc); ok && it.Comment == "rangeint.iter" {
								if c, ok := fr.allocs[a]; ok {
									delete(st.cells, c)
								}
							}
						}
					}
				}
			}
		}
	}
}

// splitConj returns the top-level conjuncts of a specification expression.
func splitConj(x *Expr) []*Expr {
	if x != nil && x.Op == "bin" && x.Name == "&&" && len(x.Args) == 2 {
		return append(splitConj(x.Args[0]), splitConj(x.Args[1])...)
	}
	return []*Expr{x}
}

// exprText renders a specification expression for messages.
func exprText(x *Expr) string {
	if x == nil {
		return ""
	}
	if x.Src != "" {
		return strings.TrimSpace(x.Src)
	}
	switch x.Op {
	case "ident", "num", "str", "type", "sitevar":
		return x.Name
	case "bin":
		if len(x.Args) == 2 {
			return exprText(x.Args[0]) + " " + x.Name + " " + exprText(x.Args[1])
		}
	case "un":
		if len(x.Args) == 1 {
			return x.Name + exprText(x.Args[0])
		}
	case "field":
		if len(x.Args) == 1 {
			return exprText(x.Args[0]) + "." + x.Name
		}
	case "index":
		if len(x.Args) == 2 {
			return exprText(x.Args[0]) + "[" + exprText(x.Args[1]) + "]"
		}
	}
	parts := make([]string, len(x.Args))
	for i, a := range x.Args {
		parts[i] = exprText(a)
	}
	return x.Name + "(" + strings.Join(parts, ", ") + ")"
}
