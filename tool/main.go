package main

import (
	"crypto/sha256"
	"encoding/json"
	"flag"
	"fmt"
	"go/ast"
	"go/token"
	"go/types"
	"os"
	"path/filepath"
	"sort"
	"strings"
	"sync"
	"time"

	"golang.org/x/tools/go/packages"
	"golang.org/x/tools/go/ssa"
	"golang.org/x/tools/go/ssa/ssautil"
)

var (
	flagProp     = flag.String("prop", "", "property id to check (C01..C20)")
	flagTier     = flag.String("tier", "quick", "quick | thorough")
	flagRepo     = flag.String("repo", "/repo", "repository to verify")
	flagVerif    = flag.String("verif", "/verif", "verification directory")
	flagOut      = flag.String("out", "", "directory for evidence/ and replays/ (default: the verification directory)")
	flagUnit     = flag.String("unit", "", "verify only this unit (debugging)")
	flagTrace    = flag.Bool("trace", false, "trace executed instructions")
	flagDump     = flag.String("dump", "", "dump SSA of functions whose name has this suffix")
	flagKeep     = flag.Bool("keep", false, "keep all SMT queries under <verif>/out/smt")
	flagShow     = flag.Bool("show", false, "print every obligation with its status")
	flagNoReplay = flag.Bool("noreplay", false, "do not attempt counterexample replay")
	flagList     = flag.Bool("list", false, "list functions")
	flagGenNames = flag.Bool("gen-names", false, "write contracts-pinned/names.json (the names the contracts are written against) from the -repo tree")
)

func loadProgram(repo string) (*ssa.Program, []*packages.Package, error) {
	cfg := &packages.Config{Mode: packages.LoadAllSyntax, Dir: repo, BuildFlags: []string{"-tags=verif"},
		Env: append(os.Environ(), "GOFLAGS=-mod=mod", "GOPROXY=off", "GOSUMDB=off", "GOTOOLCHAIN=local")}
	pkgs, err := packages.Load(cfg, "./...")
	if err != nil {
		return nil, nil, err
	}
	var errs []string
	packages.Visit(pkgs, nil, func(p *packages.Package) {
		for _, e := range p.Errors {
			errs = append(errs, e.Error())
		}
	})
	if len(errs) > 0 {
		return nil, nil, fmt.Errorf("repository does not type-check:\n%s", strings.Join(errs, "\n"))
	}
	prog, _ := ssautil.AllPackages(pkgs, ssa.NaiveForm|ssa.InstantiateGenerics)
	prog.Build()
	return prog, pkgs, nil
}

func newEngine(prog *ssa.Program, pkgs []*packages.Package) *Engine {
	e := &Engine{prog: prog, fset: prog.Fset, fns: map[string]*ssa.Function{}, smt: NewSMT(), spec: NewSpecFile(),
		flat: flatCache{m: map[types.Type][]Leaf{}}, strs: map[string]string{}, strVals: map[string]string{},
		tconsts: map[string]string{}, tconstTypes: map[string]types.Type{}, heapSorts: map[string]string{},
		abstracted: map[string]int{}, havocCalls: map[string]int{}, inlined: map[string]int{}, extUsed: map[string]int{},
		maxPaths: 200000, safetyOn: true, c10units: map[string]bool{}, lockLess: map[string]map[string]bool{},
		modCache: map[*ssa.BasicBlock]*modSet{}, pdomCache: map[*ssa.Function]map[*ssa.BasicBlock]*ssa.BasicBlock{}, neverClosedSends: map[string]int{}, fnModCache: map[*ssa.Function]*modSet{}, ifaceImplCache: map[string]bool{}}
	var modFns []*ssa.Function
	for f := range ssautil.AllFunctions(prog) {
		if f.Pkg != nil && strings.HasPrefix(f.Pkg.Pkg.Path(), modPath) || strings.Contains(f.String(), modPath) {
			modFns = append(modFns, f)
		}
	}
	e.curNames = collectNames(modFns)
	var modPkgs []*types.Package
	for _, p := range pkgs {
		if strings.HasPrefix(p.PkgPath, modPath) && !strings.HasSuffix(p.PkgPath, "_test") {
			modPkgs = append(modPkgs, p.Types)
		}
	}
	curTypes, structs := collectTypes(modPkgs)
	curObjs := collectObjs(modPkgs)
	curExt := collectExtCalls(modFns)
	if *flagGenNames {
		var l []string
		for k := range curExt {
			l = append(l, k)
		}
		sort.Strings(l)
		data, _ := json.MarshalIndent(l, "", " ")
		_ = os.WriteFile(filepath.Join(*flagVerif, "contracts-pinned", "extcalls.json"), append(data, '\n'), 0o644)
	} else {
		var l []string
		if data, err := os.ReadFile(filepath.Join(*flagVerif, "contracts-pinned", "extcalls.json")); err == nil && json.Unmarshal(data, &l) == nil {
			e.baseExt = map[string]bool{}
			for _, k := range l {
				e.baseExt[k] = true
			}
		}
	}
	if *flagGenNames {
		data, _ := json.MarshalIndent(curTypes, "", " ")
		_ = os.WriteFile(filepath.Join(*flagVerif, "contracts-pinned", "types.json"), append(data, '\n'), 0o644)
		data, _ = json.MarshalIndent(curObjs, "", " ")
		_ = os.WriteFile(filepath.Join(*flagVerif, "contracts-pinned", "objects.json"), append(data, '\n'), 0o644)
	} else {
		var objNotes []string
		var baseObjs map[string]objInfo
		if data, err := os.ReadFile(filepath.Join(*flagVerif, "contracts-pinned", "objects.json")); err == nil && json.Unmarshal(data, &baseObjs) == nil {
			objNotes = computeObjRenames(baseObjs, curObjs)
			// the struct table is keyed by (pinned) type names
			if len(typeRenameRes) > 0 {
				ct2, st2 := map[string][]varInfo{}, map[string]*types.Struct{}
				for k, v := range curTypes {
					ct2[k] = v
					st2[k] = structs[k]
				}
				curTypes, structs = ct2, st2
			}
		}
		e.names = computeRenames(loadBaselineNames(*flagVerif), e.curNames)
		e.names.notes = append(e.names.notes, objNotes...)
		var baseTypes map[string][]varInfo
		if data, err := os.ReadFile(filepath.Join(*flagVerif, "contracts-pinned", "types.json")); err == nil && json.Unmarshal(data, &baseTypes) == nil {
			e.names.notes = append(e.names.notes, computeFieldRenames(baseTypes, curTypes, structs)...)
		}
	}
	for _, f := range modFns {
		e.fns[shortName(f.String())] = f
	}
	for _, p := range pkgs {
		if strings.HasPrefix(p.PkgPath, modPath) && !strings.HasSuffix(p.PkgPath, "_test") {
			if p.PkgPath == modPath {
				e.rootPkg = p.Types
			}
			e.repoPkgs = append(e.repoPkgs, p.Types)
		}
	}
	sort.Slice(e.repoPkgs, func(i, j int) bool { return e.repoPkgs[i].Path() < e.repoPkgs[j].Path() })
	return e
}

// loadSpecs reads the contract files from the repository (comment-only, build tag verif), falling back to the
// pinned mirror when a file is missing or differs, and the trusted prelude.
func (e *Engine) loadSpecs(repo, verif string) (notes []string, err error) {
	files := []string{"verif_contracts.go", "auth/verif_contracts.go", "httpio/verif_contracts.go"}
	for _, f := range files {
		pinned := filepath.Join(verif, "contracts-pinned", strings.ReplaceAll(f, "/", "__"))
		pd, perr := os.ReadFile(pinned)
		rd, rerr := os.ReadFile(filepath.Join(repo, f))
		var text []byte
		switch {
		case perr != nil && rerr != nil:
			continue
		case perr != nil:
			text = rd
			notes = append(notes, "no pinned mirror for "+f+"; using repository copy")
		case rerr != nil:
			text = pd
			notes = append(notes, "contract file "+f+" missing in repository; using pinned mirror")
		default:
			if sha256.Sum256(pd) != sha256.Sum256(rd) {
				notes = append(notes, "contract file "+f+" differs from pinned mirror; using pinned mirror")
			}
			text = pd
		}
		if err := e.spec.ParseText(f, string(text)); err != nil {
			return notes, err
		}
	}
	pre, _ := filepath.Glob(filepath.Join(verif, "prelude", "*.spec"))
	sort.Strings(pre)
	for _, p := range pre {
		if err := e.spec.ParseFile(p); err != nil {
			return notes, err
		}
	}
	for _, d := range e.spec.SpecFns {
		e.smt.Declare(d.Name, d.Args, d.Res)
	}
	// lock order: transitive closure
	for _, p := range e.spec.LockOrder {
		if e.lockLess[p[0]] == nil {
			e.lockLess[p[0]] = map[string]bool{}
		}
		e.lockLess[p[0]][p[1]] = true
	}
	for changed := true; changed; {
		changed = false
		for a, m := range e.lockLess {
			for b := range m {
				for c := range e.lockLess[b] {
					if !e.lockLess[a][c] {
						e.lockLess[a][c] = true
						changed = true
					}
				}
			}
		}
	}
	for a, m := range e.lockLess {
		if m[a] {
			return notes, fmt.Errorf("declared lock order is cyclic at %s", a)
		}
	}
	if p, ok := e.spec.Properties["C10"]; ok {
		for _, u := range p.Units {
			e.c10units[u] = true
		}
	}
	// axioms become background facts
	for _, ax := range e.spec.Axioms {
		env := &Env{e: e, st: e.newState(), pkg: e.rootPkg}
		t, err := e.EvalBool(env, ax.E)
		if err != nil {
			return notes, fmt.Errorf("axiom %s: %v", ax.Label, err)
		}
		e.smt.AddFact(t)
		e.axiomTexts = append(e.axiomTexts, ax.Label+": "+ax.Src)
	}
	return notes, nil
}

func (e *Engine) newState() *State {
	return &State{cells: map[*Cell]Val{}, heap: map[string]string{}, ghost: map[string]string{}, sort: map[string]string{},
		heapRef: map[string]*Refine{}, defers: map[*Frame][]DeferredCall{}, lets: map[string]Val{}, loopLocks: map[string]string{}}
}

// verifyUnit generates all obligations of one function under contract.
func (e *Engine) verifyUnit(name string) (err error) {
	fn := e.fns[name]
	if fn == nil || len(fn.Blocks) == 0 {
		return fmt.Errorf("contract-target-missing: function %s not found in the repository", name)
	}
	if fn.Synthetic != "" && strings.HasPrefix(name, "(*") && !e.sweepOnly {
		// the contract is for a method with a pointer receiver; what is left is the compiler's wrapper around a method
		// that now takes its receiver by value (and so works on a copy of the object)
		return fmt.Errorf("contract-target-missing: %s is no longer declared with a pointer receiver (%s)", name, fn.Synthetic)
	}
	defer func() {
		if r := recover(); r != nil {
			if s, ok := r.(string); ok {
				err = fmt.Errorf("engine: %s: %s", name, s)
				return
			}
			if ee, ok := r.(evalErr); ok {
				err = fmt.Errorf("engine: %s: %s", name, ee.msg)
				return
			}
			panic(r)
		}
	}()
	e.unit = name
	e.paths = 0
	e.freshObjs = nil
	ct := e.spec.Contracts[name]
	// safety obligations belong to C10 for peer-reachable functions, else to the property listing the function
	// the zero-annotation safety sweep is claimed for the peer-reachable functions (C10's units) and for functions
	// whose contract opts in with `safety`; elsewhere only the annotated obligations are generated
	e.safetyOn = e.curProp == "ALL" || (e.curProp == "C10" && e.c10units[name]) || (ct != nil && ct.Safety && !e.c10units[name])
	if ct != nil && ct.NoSafety {
		e.safetyOn = false
	}
	st := e.newState()
	var args []Val
	for i, p := range fn.Params {
		v := e.freshVal(st, p.Type(), "in_"+e.vname(fn, p.Name()))
		if i == 0 && fn.Signature.Recv() != nil && isPointer(p.Type()) {
			st.assume(mkNot(mkEq(v.term(), "nil")))
		}
		args = append(args, v)
	}
	var bind []Val
	fvCells := map[string]*Cell{}
	for _, fv := range fn.FreeVars {
		elem := fv.Type().Underlying().(*types.Pointer).Elem()
		c := e.newCell(elem, e.vname(fn, fv.Name()), true)
		st.cells[c] = e.freshVal(st, elem, "cap_"+e.vname(fn, fv.Name()))
		bind = append(bind, e.cellPtr(c, fv.Type()))
		fvCells[fv.Name()] = c
		fvCells[e.vname(fn, fv.Name())] = c
	}
	e.resolveCapturedClosures(st, fn, bind)
	fr := e.newFrame(fn, nil, 0)
	fr.params = args
	fr.bindings = bind
	fr.contract = ct
	for n, c := range fvCells {
		fr.names[n] = c
	}
	for i, p := range fn.Params {
		fr.regs[p] = args[i]
	}
	if ct != nil {
		for g, so := range ct.Ghosts {
			init := ct.GhostInit[g]
			if init == "" {
				init = e.smt.Fresh("g_"+g, so)
			}
			st.ghost[g] = init
			st.sort[g] = so
		}
		for _, l := range ct.EntryLocks {
			st.locks = append(st.locks, "entry:"+l)
			st.lockCls = append(st.lockCls, l)
		}
		for _, cl := range ct.Requires {
			env := &Env{e: e, st: st, old: st, fr: fr, pkg: fn.Pkg.Pkg, names: e.bindParams(fn, fn.Signature, args)}
			t, err := e.EvalBool(env, cl.E)
			if err != nil {
				if id := unknownIdent(err); id != "" && e.wasCaptured(name, id) {
					// the closure no longer captures that variable: an assumption about it is simply dropped (sound)
					e.warnings = append(e.warnings, fmt.Sprintf("%s: requires %s dropped: %q is no longer captured by the closure", name, cl.Label, id))
					continue
				}
				// the contract talks about something the code no longer has: reported as contract-target-missing
				e.specErrs = append(e.specErrs, fmt.Sprintf("%s: requires %s: %v", name, cl.Label, err))
				continue
			}
			st.assume(t)
		}
	}
	e.cover(st, "pre")
	fr.entry = st.clone()
	entryLocks := st.lockSig()
	nret, npanic := 0, 0
	var retStates []*State
	fr.out = func(o Outcome) {
		if o.panicked {
			npanic++
			if ct != nil && ct.HasNoPanic {
				e.oblige(o.st, "nopanic", "exits-by-panic", "false", ct.NoPanic, fn.Pos())
			} else if ct == nil || !ct.MayPanic {
				e.safety(o.st, "nopanic", "exits-by-panic", "false", fn.Pos())
			}
			return
		}
		nret++
		if len(retStates) < 12 {
			retStates = append(retStates, o.st)
		}
		if o.st.lockSig() != entryLocks {
			e.oblige(o.st, "lockorder", "returns-with-different-lockset", "false", []string{"C14"}, fn.Pos())
		} else if len(e.spec.Guards) > 0 {
			e.oblige(o.st, "lockorder", "returns-with-different-lockset", "true", []string{"C14"}, fn.Pos())
		}
		if ct != nil {
			ret := o.ret
			if os.Getenv("GOVC_DEBUG_RET") != "" {
				fmt.Fprintf(os.Stderr, "return value: %v\n", ret.L)
			}
			for _, cl := range ct.Ensures {
				if !e.wantTags(cl.Tags) {
					continue
				}
				env := &Env{e: e, st: o.st, old: fr.entry, fr: fr, result: &ret, pkg: fn.Pkg.Pkg}
				t, err := e.EvalBool(env, cl.E)
				if err != nil {
					e.specError(fr, "ensures %s: %v", cl.Label, err)
					continue
				}
				e.oblige(o.st, "post", cl.Label, t, cl.Tags, fn.Pos())
			}
		}
	}
	e.execFrom(st, fr, fn.Blocks[0], 0, nil)
	if ct != nil && ct.HasNoPanic && npanic == 0 {
		e.oblige(fr.entry, "nopanic", "exits-by-panic", "true", ct.NoPanic, fn.Pos())
	}
	// vacuity: at least one return path must be feasible (checked as a disjunctive cover)
	if nret > 0 && !e.sweepOnly {
		o := &Oblig{Kind: "cover", Func: name, Label: "return", Cover: true}
		o.Name = fmt.Sprintf("%s/%s/cover:return", e.curProp, name)
		// satisfiable if any of the sampled return paths is
		for _, s := range retStates {
			o.Alts = append(o.Alts, s.pc.list())
		}
		e.obls = append(e.obls, o)
	}
	if !e.sweepOnly {
		e.unitStats = append(e.unitStats, fmt.Sprintf("%s: paths=%d returns=%d panics=%d", name, e.paths, nret, npanic))
	}
	return nil
}

// ---------- solving ----------

type groupResult struct {
	Name     string
	Kind     string
	Func     string
	Label    string
	Queries  int
	Trivial  int
	Status   string // discharged | failed | unknown | error
	Solver   map[string]int
	Time     float64
	Model    string
	Pos      string
	FailText string
	Raw      string
	coverSat bool
}

func (e *Engine) solveAll(thorough bool, seed int, outDir string) []*groupResult {
	timeout := 10 * time.Second
	if thorough {
		timeout = 60 * time.Second
	}
	type job struct{ o *Oblig }
	jobs := make(chan *Oblig)
	var wg sync.WaitGroup
	cache := sync.Map{}
	workers := 12
	if thorough {
		workers = 5
	}
	for w := 0; w < workers; w++ {
		wg.Add(1)
		go func() {
			defer wg.Done()
			for o := range jobs {
				if o.Cover {
					e.solveCover(o, seed, timeout)
					continue
				}
				// cone-of-influence slicing: assumptions that share no symbol with the goal (transitively) are dropped.
				// Dropping assumptions is sound for discharging (unsat stays unsat); a sliced "sat" is re-checked in full.
				sliced := sliceAssumptions(o.Assume, o.Goal)
				q := &Query{Name: o.Name, Assume: sliced, Goal: o.Goal}
				key := fmt.Sprintf("%x", sha256.Sum256([]byte(strings.Join(sliced, "\n")+"\n=>"+o.Goal)))
				if r, ok := cache.Load(key); ok {
					res := r.(SolverResult)
					if res.Status == "unsat" {
						o.Status, o.Solver = res.Status, res.Solver+"(cached)"
						continue
					}
				}
				res, _ := e.smt.Solve(q, thorough, seed, timeout)
				cache.Store(key, res)
				if res.Status != "unsat" && len(sliced) != len(o.Assume) {
					q = &Query{Name: o.Name, Assume: o.Assume, Goal: o.Goal}
					fkey := fmt.Sprintf("%x", sha256.Sum256([]byte(strings.Join(o.Assume, "\n")+"\n=>"+o.Goal)))
					if r, ok := cache.Load(fkey); ok {
						res = r.(SolverResult)
					} else {
						res, _ = e.smt.Solve(q, thorough, seed, timeout)
						cache.Store(fkey, res)
					}
				}
				o.Status, o.Solver, o.Time, o.Model, o.Text = res.Status, res.Solver, res.Time, res.Model, q.smtText
				if res.Status != "unsat" {
					o.Note = res.Raw
				}
			}
		}()
	}
	for _, o := range e.obls {
		if o.Status == "" {
			jobs <- o
		}
	}
	close(jobs)
	wg.Wait()
	// group by name
	groups := map[string]*groupResult{}
	var order []string
	for _, o := range e.obls {
		g := groups[o.Name]
		if g == nil {
			g = &groupResult{Name: o.Name, Kind: o.Kind, Func: o.Func, Label: o.Label, Solver: map[string]int{}, Status: "discharged", Pos: o.Pos}
			groups[o.Name] = g
			order = append(order, o.Name)
		}
		g.Queries++
		g.Time += o.Time
		g.Solver[strings.TrimSuffix(o.Solver, "(cached)")]++
		if o.Solver == "trivial" {
			g.Trivial++
		}
		if o.Cover {
			// instances of one cover reached on different paths: the cover holds if any of them is satisfiable
			if o.Status == "sat" {
				g.Status = "discharged"
				g.coverSat = true
			} else if !g.coverSat {
				g.Status = "vacuous"
				g.Raw = o.Note
			}
			continue
		}
		switch o.Status {
		case "unsat":
		case "sat":
			if g.Status != "failed" {
				g.Status = "failed"
				g.Model = o.Model
				g.FailText = o.Text
				g.Pos = o.Pos
			}
		case "disagree":
			g.Status = "error"
			g.Raw = o.Note
		default:
			if g.Status == "discharged" {
				g.Status = "unknown"
				g.FailText = o.Text
				g.Raw = o.Note
				g.Pos = o.Pos
			}
		}
		if *flagKeep && o.Text != "" {
			dumpQuery(filepath.Join(outDir, "smt"), fmt.Sprintf("%s__%d", o.Name, g.Queries), o.Text)
		}
	}
	var out []*groupResult
	for _, n := range order {
		out = append(out, groups[n])
	}
	return out
}

func (e *Engine) solveCover(o *Oblig, seed int, timeout time.Duration) {
	alts := o.Alts
	if len(alts) == 0 {
		alts = [][]string{o.Assume}
	}
	for _, a := range alts {
		q := &Query{Name: o.Name, Assume: a}
		// z3-new is the fastest on satisfiable instances; fall back to the others
		text := e.smt.Emit(q, false)
		r := runSolver("z3-new", text, timeout, seed)
		if r.Status != "sat" {
			r2 := runSolver("z3", text, timeout, seed)
			if r2.Status == "sat" {
				r = r2
			} else if r.Status != "unsat" || r2.Status != "unsat" {
				r3 := runSolver("cvc5", e.smt.Emit(q, true), timeout, seed)
				if r3.Status == "sat" || (r3.Status == "unknown" && r.Status != "unsat") {
					r = r3
					if r3.Status == "unknown" {
						// quantified assumptions: a solver that cannot refute them is accepted as "not vacuous"
						r.Status = "sat"
					}
				}
			}
		}
		o.Time += r.Time
		o.Solver = r.Solver
		if r.Status == "sat" || r.Status == "unknown" || r.Status == "timeout" {
			// unknown/timeout: cannot show vacuity; quantified path conditions often end here
			o.Status = "sat"
			return
		}
		o.Status = r.Status
		o.Note = r.Raw
	}
}

// ---------- reporting ----------

type KnownFinding struct {
	Property   string `json:"property"`
	Obligation string `json:"obligation"`
	Status     string `json:"status"` // open | fixed
	Commit     string `json:"commit,omitempty"`
	What       string `json:"what"`
}

func loadKnown(verif string) []KnownFinding {
	var kf struct {
		Findings []KnownFinding `json:"findings"`
	}
	data, err := os.ReadFile(filepath.Join(verif, "known-findings.json"))
	if err != nil {
		return nil
	}
	_ = json.Unmarshal(data, &kf)
	return kf.Findings
}

func main() {
	flag.Parse()
	t0 := time.Now()
	seed := 0
	fmt.Sscanf(os.Getenv("VERIF_SEED"), "%d", &seed)
	if t := os.Getenv("VERIF_TIER"); t != "" && *flagTier == "" {
		*flagTier = t
	}
	prog, pkgs, err := loadProgram(*flagRepo)
	if err != nil {
		fmt.Fprintln(os.Stderr, "govc: load error:", err)
		os.Exit(2)
	}
	e := newEngine(prog, pkgs)
	e.trace = *flagTrace
	if *flagGenNames {
		data, _ := json.MarshalIndent(e.curNames, "", " ")
		p := filepath.Join(*flagVerif, "contracts-pinned", "names.json")
		if err := os.WriteFile(p, append(data, '\n'), 0o644); err != nil {
			fmt.Fprintln(os.Stderr, "govc:", err)
			os.Exit(2)
		}
		fmt.Println("govc: wrote", p, len(e.curNames), "functions")
		return
	}
	if *flagList {
		var ns []string
		for n := range e.fns {
			ns = append(ns, n)
		}
		sort.Strings(ns)
		for _, n := range ns {
			fmt.Println(n)
		}
		return
	}
	if *flagDump != "" {
		for n, f := range e.fns {
			if strings.HasSuffix(n, *flagDump) {
				f.WriteTo(os.Stdout)
			}
		}
		return
	}
	notes, err := e.loadSpecs(*flagRepo, *flagVerif)
	if e.names != nil {
		notes = append(notes, e.names.notes...)
	}
	if err != nil {
		fmt.Fprintln(os.Stderr, "govc: contract error:", err)
		os.Exit(2)
	}
	prop := *flagProp
	if prop == "" {
		prop = "ALL"
	}
	e.curProp = prop
	var units []string
	if *flagUnit != "" {
		units = []string{*flagUnit}
	} else if pd, ok := e.spec.Properties[prop]; ok {
		units = append([]string{}, pd.Units...)
		var extra []string
		for u := range pd.Core {
			dup := false
			for _, x := range units {
				if x == u {
					dup = true
				}
			}
			if !dup {
				extra = append(extra, u)
			}
		}
		sort.Strings(extra)
		units = append(units, extra...)
	} else {
		fmt.Fprintf(os.Stderr, "govc: no units declared for property %s\n", prop)
		os.Exit(2)
	}
	var missing []string
	for _, u := range units {
		if err := e.verifyUnit(u); err != nil {
			if strings.HasPrefix(err.Error(), "contract-target-missing") {
				missing = append(missing, err.Error())
				continue
			}
			fmt.Fprintln(os.Stderr, "govc:", err)
			os.Exit(2)
		}
	}
	// contracts on declarations
	e.unit = ""
	for _, sc := range e.spec.Statics {
		if !e.wantTags(sc.Cl.Tags) {
			continue
		}
		pkg := e.rootPkg
		for _, p := range e.repoPkgs {
			if sub := strings.TrimPrefix(p.Path(), modPath+"/"); sub != p.Path() && strings.HasPrefix(sc.File, sub+"/") {
				pkg = p
			}
		}
		st := e.newState()
		e.unit = "declarations"
		g, err := e.EvalBool(&Env{e: e, st: st, pkg: pkg}, sc.Cl.E)
		if err != nil {
			missing = append(missing, fmt.Sprintf("contract-target-missing: static %s: %v", sc.Cl.Label, err))
		} else {
			e.oblige(st, "decl", sc.Cl.Label, g, sc.Cl.Tags, token.NoPos)
		}
		e.unit = ""
	}
	// module-wide rules of a swept property are also checked in every other function of the module
	if pd := e.spec.Properties[prop]; pd != nil && pd.Sweep && *flagUnit == "" {
		listed := map[string]bool{}
		for _, u := range units {
			listed[u] = true
		}
		var rest []string
		for n, f := range e.fns {
			if !listed[n] && len(f.Blocks) > 0 && (f.Synthetic == "" || f.Synthetic == "package initializer") && !strings.HasSuffix(n, "$bound") && !strings.Contains(n, "[") {
				rest = append(rest, n)
			}
		}
		sort.Strings(rest)
		e.sweepOnly = true
		nsw := 0
		inl := e.inlinedEverywhere()
		for _, u := range rest {
			if inl[e.fns[u]] && e.spec.Contracts[u] == nil {
				continue // only ever called statically: checked in the context of each caller, where it is inlined
			}
			nerr := len(e.specErrs)
			if err := e.verifyUnit(u); err != nil {
				e.warnings = append(e.warnings, "sweep: "+u+" skipped: "+err.Error())
			} else {
				nsw++
			}
			e.specErrs = e.specErrs[:nerr] // contracts of other properties are not this sweep's business
		}
		e.sweepOnly = false
		notes = append(notes, fmt.Sprintf("module-wide rules of %s were also checked in %d further functions (sweep)", prop, nsw))
	}
	// a type all of whose methods are units of this property is a data structure under contract: a method added to it
	// is a new public operation that must preserve the same invariants, so it needs a contract of its own
	if e.names != nil && e.names.base != nil && *flagUnit == "" {
		recvOf := func(n string) string {
			if strings.Contains(n, "$") || !strings.HasPrefix(n, "(") {
				return ""
			}
			if i := strings.Index(n, ")."); i > 0 {
				return strings.TrimPrefix(n[1:i], "*")
			}
			return ""
		}
		isUnit := map[string]bool{}
		for _, u := range units {
			isUnit[u] = true
		}
		full := map[string]bool{}
		for _, u := range units {
			if t := recvOf(u); t != "" {
				full[t] = true
			}
		}
		for n := range e.names.base {
			if t := recvOf(n); t != "" && full[t] && !isUnit[n] {
				full[t] = false
			}
		}
		var added []string
		for n, f := range e.fns {
			if t := recvOf(n); t != "" && full[t] && e.isNewCode(f) && e.spec.Contracts[n] == nil {
				// an unexported helper is only reachable from the type's own methods (it is inlined and checked there); a
				// method that only reads (no store outside its locals, no call, no channel operation) cannot break anything
				if !ast.IsExported(f.Name()) || readOnlyBody(f) {
					continue
				}
				added = append(added, n)
			}
		}
		sort.Strings(added)
		for _, n := range added {
			missing = append(missing, fmt.Sprintf("contract-target-missing: %s is a new method on a type whose every method is under contract for %s; it has no contract", n, prop))
		}
	}
	// vacuity of site rules: an assertion attached to a call/site that never occurs in the verified code checks nothing
	verified := map[string]bool{}
	for _, u := range units {
		verified[u] = true
	}
	for _, u := range units {
		if ct := e.spec.Contracts[u]; ct != nil {
			e.unit = u
			for _, r := range ct.Sites {
				if r.Action == "assert" && r.Fired == 0 && e.wantTags(r.Cl.Tags) {
					missing = append(missing, fmt.Sprintf("contract-target-missing: %s: no `%s %s` site exists any more for assertion %s", u, r.Sel, r.Pat, r.Cl.Label))
				}
			}
		}
	}
	if *flagUnit == "" {
		e.unit = ""
		for _, r := range e.spec.Globals {
			if r.Action == "assert" && r.Fired == 0 && !r.Optional && e.wantTags(r.Cl.Tags) && len(r.Cl.Tags) > 0 {
				missing = append(missing, fmt.Sprintf("contract-target-missing: global rule `%s %s` (%s) matches no site in the units of %s", r.Sel, r.Pat, r.Cl.Label, prop))
			}
		}
	}
	if len(e.specErrs) > 0 {
		// a contract that cannot be evaluated against the current code: the target it talks about is gone
		for _, s := range e.specErrs {
			missing = append(missing, "contract-target-missing: "+s)
		}
	}
	if os.Getenv("GOVC_VERBOSE") != "" {
		fmt.Fprintf(os.Stderr, "govc: %d obligation instances generated in %.1fs; %v\n", len(e.obls), time.Since(t0).Seconds(), e.unitStats)
	}
	if *flagOut == "" {
		*flagOut = *flagVerif
	}
	outDir := filepath.Join(*flagOut, "out")
	thorough := *flagTier == "thorough"
	groups := e.solveAll(thorough, seed, outDir)
	rep := e.report(prop, *flagTier, seed, groups, missing, notes, time.Since(t0).Seconds(), units)
	os.Exit(rep)
}

var sliceIgnore = map[string]bool{"nil": true, "typeof": true, "hashable": true, "strlen": true, "select": true, "store": true,
	"and": true, "or": true, "not": true, "=>": true, "=": true, "ite": true, "+": true, "-": true, "*": true, "<": true, "<=": true, ">": true, ">=": true,
	"forall": true, "exists": true, "Int": true, "Bool": true, "U": true, "Real": true, "Array": true, "as": true, "const": true, "true": true, "false": true,
	"div": true, "mod": true, "to_real": true, "to_int": true, "distinct": true, "/": true, "strcat": true}

func symsOf(t string) map[string]bool {
	m := map[string]bool{}
	scanSymbols(t, m)
	for k := range m {
		if sliceIgnore[k] || strings.HasPrefix(k, "T!") || strings.HasPrefix(k, "str!") {
			delete(m, k)
			continue
		}
		if _, ok := intLit(k); ok {
			delete(m, k)
		}
	}
	return m
}

func sliceAssumptions(assume []string, goal string) []string {
	rel := symsOf(goal)
	syms := make([]map[string]bool, len(assume))
	for i, a := range assume {
		syms[i] = symsOf(a)
	}
	taken := make([]bool, len(assume))
	for changed := true; changed; {
		changed = false
		for i := range assume {
			if taken[i] {
				continue
			}
			hit := false
			for s := range syms[i] {
				if rel[s] {
					hit = true
					break
				}
			}
			if hit {
				taken[i] = true
				changed = true
				for s := range syms[i] {
					rel[s] = true
				}
			}
		}
	}
	var out []string
	for i, a := range assume {
		if taken[i] {
			out = append(out, a)
		}
	}
	return out
}

// resolveCapturedClosures: a captured variable of function type that the enclosing function assigns exactly once,
// with a closure literal, and that no closure writes, denotes that closure (a local helper such as
// `lookup := func(...) {...}`); its own captured variables are shared with the unit's where they coincide.
func (e *Engine) resolveCapturedClosures(st *State, fn *ssa.Function, bind []Val) {
	parent := fn.Parent()
	if parent == nil || len(fn.FreeVars) == 0 {
		return
	}
	var mk *ssa.MakeClosure
	for _, b := range parent.Blocks {
		for _, in := range b.Instrs {
			if m, ok := in.(*ssa.MakeClosure); ok && m.Fn == fn {
				mk = m
			}
		}
	}
	if mk == nil || len(mk.Bindings) != len(fn.FreeVars) {
		return
	}
	cellOf := func(v ssa.Value) *Cell {
		for i, b := range mk.Bindings {
			if b == v && i < len(bind) {
				if r := bind[i].ref(0); r != nil && r.Loc != nil && r.Loc.Kind == LCell {
					return r.Loc.Cell
				}
			}
		}
		return nil
	}
	for i, fv := range fn.FreeVars {
		elem := fv.Type().Underlying().(*types.Pointer).Elem()
		if _, ok := elem.Underlying().(*types.Signature); !ok {
			continue
		}
		a, ok := mk.Bindings[i].(*ssa.Alloc)
		if !ok || a.Referrers() == nil {
			continue
		}
		var stores []*ssa.Store
		okUse := true
		for _, r := range *a.Referrers() {
			switch x := r.(type) {
			case *ssa.Store:
				if x.Addr == a {
					stores = append(stores, x)
				} else {
					okUse = false
				}
			case *ssa.UnOp, *ssa.DebugRef:
			case *ssa.MakeClosure:
				cf := x.Fn.(*ssa.Function)
				w := e.writtenFreeVars(cf)
				for j, b := range x.Bindings {
					if b == a && j < len(cf.FreeVars) && w[cf.FreeVars[j]] {
						okUse = false
					}
				}
			default:
				okUse = false
			}
		}
		if !okUse || len(stores) != 1 {
			continue
		}
		hm, ok := stores[0].Val.(*ssa.MakeClosure)
		if !ok {
			continue
		}
		hf := hm.Fn.(*ssa.Function)
		var hb []Val
		for j, b := range hm.Bindings {
			if c := cellOf(b); c != nil {
				hb = append(hb, e.cellPtr(c, hf.FreeVars[j].Type()))
				continue
			}
			el := hf.FreeVars[j].Type().Underlying().(*types.Pointer).Elem()
			c := e.newCell(el, e.vname(hf, hf.FreeVars[j].Name()), true)
			st.cells[c] = e.freshVal(st, el, "cap_"+c.name)
			hb = append(hb, e.cellPtr(c, hf.FreeVars[j].Type()))
		}
		if r := bind[i].ref(0); r != nil && r.Loc != nil && r.Loc.Kind == LCell {
			fvl := e.funcVal(hf, hb)
			st.cells[r.Loc.Cell] = Val{T: elem, L: fvl.L, R: fvl.R}
		}
	}
}

func unknownIdent(err error) string {
	const k = "unknown identifier \""
	m := err.Error()
	i := strings.Index(m, k)
	if i < 0 {
		return ""
	}
	m = m[i+len(k):]
	if j := strings.Index(m, "\""); j >= 0 {
		return m[:j]
	}
	return ""
}

// wasCaptured: was id a captured variable of the (pinned) closure name?
func (e *Engine) wasCaptured(name, id string) bool {
	if e.names == nil || e.names.base == nil {
		return false
	}
	fi := e.names.base[name]
	if fi == nil {
		return false
	}
	for _, v := range fi.Free {
		if v.N == id {
			return true
		}
	}
	return false
}

// readOnlyBody: the function stores only into its own locals, calls nothing but len/cap, and performs no channel,
// map-update, go, defer or panic operation.
func readOnlyBody(fn *ssa.Function) bool {
	local := func(v ssa.Value) bool {
		for {
			switch x := v.(type) {
			case *ssa.Alloc:
				return !x.Heap
			case *ssa.FieldAddr:
				v = x.X
			case *ssa.IndexAddr:
				v = x.X
			default:
				return false
			}
		}
	}
	for _, b := range fn.Blocks {
		for _, in := range b.Instrs {
			switch x := in.(type) {
			case *ssa.Store:
				if !local(x.Addr) {
					return false
				}
			case *ssa.Call:
				if bi, ok := x.Call.Value.(*ssa.Builtin); ok {
					switch bi.Name() {
					case "len", "cap", "ssa:deferstack":
						continue
					}
				}
				return false
			case *ssa.MapUpdate, *ssa.Send, *ssa.Go, *ssa.Defer, *ssa.Panic, *ssa.Select, *ssa.MakeClosure, *ssa.MakeChan:
				return false
			case *ssa.UnOp:
				if x.Op == token.ARROW {
					return false
				}
			}
		}
	}
	return true
}

// inlinedEverywhere: uncontracted module functions small enough to be inlined whose every use is a static call
// (never a go statement, never a function value, not an exported method that an interface could reach).
func (e *Engine) inlinedEverywhere() map[*ssa.Function]bool {
	called := map[*ssa.Function]bool{}
	escaped := map[*ssa.Function]bool{}
	for _, f := range e.fns {
		for _, b := range f.Blocks {
			for _, in := range b.Instrs {
				var callee ssa.Value
				switch x := in.(type) {
				case *ssa.Call:
					callee = x.Call.Value
				case *ssa.Defer:
					callee = x.Call.Value
				}
				for _, op := range in.Operands(nil) {
					if op == nil || *op == nil {
						continue
					}
					if g, ok := (*op).(*ssa.Function); ok {
						if *op == callee {
							called[g] = true
						} else {
							escaped[g] = true
						}
					}
				}
				if g, ok := in.(*ssa.Go); ok {
					if t, ok := g.Call.Value.(*ssa.Function); ok {
						escaped[t] = true
					}
				}
			}
		}
	}
	out := map[*ssa.Function]bool{}
	for _, f := range e.fns {
		if !called[f] || escaped[f] || f.Parent() != nil {
			continue
		}
		if f.Signature.Recv() != nil && ast.IsExported(f.Name()) {
			continue
		}
		n := 0
		for _, b := range f.Blocks {
			n += len(b.Instrs)
		}
		if n <= 400 {
			out[f] = true
		}
	}
	return out
}
