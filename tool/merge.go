package main

// State merging at control-flow joins (immediate post-dominators of forks) so that diamonds do not multiply paths.

import (
	"fmt"
	"os"
	"sort"
	"strings"

	"golang.org/x/tools/go/ssa"
)

type joinPoint struct {
	block  *ssa.BasicBlock
	parked []parkedState
}

type parkedState struct {
	st   *State
	from *ssa.BasicBlock
}

// ipdoms computes immediate post-dominators for fn (nil = the virtual exit).
func (e *Engine) ipdoms(fn *ssa.Function) map[*ssa.BasicBlock]*ssa.BasicBlock {
	if m, ok := e.pdomCache[fn]; ok {
		return m
	}
	n := len(fn.Blocks)
	// pdom sets as bool slices over block indices; index n = virtual exit
	full := func() []bool {
		s := make([]bool, n+1)
		for i := range s {
			s[i] = true
		}
		return s
	}
	pd := make([][]bool, n)
	for i := range pd {
		pd[i] = full()
	}
	succs := func(b *ssa.BasicBlock) []int {
		if len(b.Succs) == 0 {
			return []int{n}
		}
		var out []int
		for _, s := range b.Succs {
			out = append(out, s.Index)
		}
		return out
	}
	exitSet := make([]bool, n+1)
	exitSet[n] = true
	get := func(i int) []bool {
		if i == n {
			return exitSet
		}
		return pd[i]
	}
	for changed := true; changed; {
		changed = false
		for i := n - 1; i >= 0; i-- {
			b := fn.Blocks[i]
			nw := full()
			for _, s := range succs(b) {
				ss := get(s)
				for k := range nw {
					nw[k] = nw[k] && ss[k]
				}
			}
			nw[i] = true
			for k := range nw {
				if nw[k] != pd[i][k] {
					changed = true
					break
				}
			}
			pd[i] = nw
		}
	}
	res := map[*ssa.BasicBlock]*ssa.BasicBlock{}
	for i, b := range fn.Blocks {
		// the immediate post-dominator is the strict post-dominator that is post-dominated by all other strict ones,
		// i.e. the one with the largest pdom set
		best, bestSize := -1, -1
		for k := 0; k <= n; k++ {
			if k == i || !pd[i][k] {
				continue
			}
			size := 0
			if k == n {
				size = 1
			} else {
				for _, x := range pd[k] {
					if x {
						size++
					}
				}
			}
			if size > bestSize {
				best, bestSize = k, size
			}
		}
		if best >= 0 && best < n {
			res[b] = fn.Blocks[best]
		} else {
			res[b] = nil
		}
	}
	e.pdomCache[fn] = res
	return res
}

// forkJoin runs the alternatives of a fork; paths that reach the join block are merged and continued once.
func (e *Engine) forkJoin(fr *Frame, at *ssa.BasicBlock, alts []func()) {
	J := e.ipdoms(fr.fn)[at]
	if J == nil || e.noMerge {
		for _, a := range alts {
			a()
		}
		return
	}
	jp := &joinPoint{block: J}
	fr.joins = append(fr.joins, jp)
	for _, a := range alts {
		a()
	}
	fr.joins = fr.joins[:len(fr.joins)-1]
	if len(jp.parked) == 0 {
		return
	}
	// partition by mergeability signature
	classes := map[string][]parkedState{}
	var order []string
	for _, p := range jp.parked {
		sig := e.mergeSig(p.st)
		if _, ok := classes[sig]; !ok {
			order = append(order, sig)
		}
		classes[sig] = append(classes[sig], p)
	}
	for _, sig := range order {
		ps := classes[sig]
		var phis []*ssa.Phi
		for _, ins := range J.Instrs {
			if phi, ok := ins.(*ssa.Phi); ok {
				phis = append(phis, phi)
			} else {
				break
			}
		}
		var sts []*State
		var extras [][]Val
		for _, p := range ps {
			sts = append(sts, p.st)
			var ex []Val
			for _, phi := range phis {
				for k, pred := range J.Preds {
					if pred == p.from {
						ex = append(ex, e.get(p.st, fr, phi.Edges[k]))
						break
					}
				}
			}
			extras = append(extras, ex)
		}
		merged, mex := e.mergeStates(sts, extras)
		for i, phi := range phis {
			if i < len(mex) {
				fr.regs[phi] = mex[i]
			}
		}
		from := ps[0].from
		if e.isLoopHead(J) {
			e.loopArrive(merged, fr, from, J)
			continue
		}
		e.execFrom(merged, fr, J, len(phis), from)
	}
}

func (e *Engine) mergeSig(st *State) string {
	var b strings.Builder
	fmt.Fprintf(&b, "p=%v;r=%v;", st.panicking, st.recovered)
	b.WriteString(strings.Join(st.locks, ","))
	b.WriteString("|")
	var fs []string
	for f, ds := range st.defers {
		var ids []string
		for _, d := range ds {
			ids = append(ids, fmt.Sprintf("%p", d.instr))
		}
		if len(ids) > 0 {
			fs = append(fs, fmt.Sprintf("%p:%s", f, strings.Join(ids, ",")))
		}
	}
	sort.Strings(fs)
	b.WriteString(strings.Join(fs, ";"))
	b.WriteString("|")
	var ls []string
	for k, v := range st.lets {
		ls = append(ls, fmt.Sprintf("%s/%d", k, len(v.L)))
	}
	sort.Strings(ls)
	b.WriteString(strings.Join(ls, ","))
	b.WriteString("|")
	var ll []string
	for k, v := range st.loopLocks {
		ll = append(ll, k+"="+v)
	}
	sort.Strings(ll)
	b.WriteString(strings.Join(ll, ","))
	return b.String()
}

func commonAncestor(a, b *pcNode) *pcNode {
	for a != nil && b != nil && a != b {
		if a.n > b.n {
			a = a.prev
		} else if b.n > a.n {
			b = b.prev
		} else {
			a, b = a.prev, b.prev
		}
	}
	if a == b {
		return a
	}
	return nil
}

func restAfter(p, anc *pcNode) []string {
	var out []string
	for x := p; x != anc && x != nil; x = x.prev {
		out = append(out, x.term)
	}
	for i, j := 0, len(out)-1; i < j; i, j = i+1, j-1 {
		out[i], out[j] = out[j], out[i]
	}
	return out
}

// mergeStates joins mutually exclusive path states into one. extras are per-state value lists merged alongside.
func (e *Engine) mergeStates(sts []*State, extras [][]Val) (*State, []Val) {
	if len(sts) == 1 {
		if len(extras) > 0 {
			return sts[0], extras[0]
		}
		return sts[0], nil
	}
	e.merges++
	anc := sts[0].pc
	for _, s := range sts[1:] {
		anc = commonAncestor(anc, s.pc)
	}
	guards := make([]string, len(sts))
	m := sts[0].clone()
	m.pc = anc
	for i, s := range sts {
		rest := restAfter(s.pc, anc)
		g := e.smt.Fresh("path", SBool)
		m.assume(mkEq(g, mkAnd(rest...)))
		guards[i] = g
	}
	m.assume(mkOr(guards...))
	pick := func(vals []string) string {
		same := true
		for _, v := range vals[1:] {
			if v != vals[0] {
				same = false
				break
			}
		}
		if same {
			return vals[0]
		}
		out := vals[len(vals)-1]
		for i := len(vals) - 2; i >= 0; i-- {
			out = mkIte(guards[i], vals[i], out)
		}
		return out
	}
	mergeVal := func(vs []Val) Val {
		out := Val{T: vs[0].T, L: make([]string, len(vs[0].L))}
		for _, v := range vs {
			if len(v.L) != len(out.L) {
				panic("mergeVal: shape mismatch")
			}
		}
		keepR := true
		for k := range out.L {
			col := make([]string, len(vs))
			for i, v := range vs {
				col[i] = v.L[k]
			}
			out.L[k] = pick(col)
		}
		for _, v := range vs[1:] {
			if len(v.R) != len(vs[0].R) {
				keepR = false
				break
			}
			for k := range v.R {
				if v.R[k] != vs[0].R[k] {
					keepR = false
				}
			}
		}
		if keepR {
			out.R = vs[0].R
		} else {
			// keep function identities as guarded alternatives
			out.R = make([]*Refine, len(out.L))
			for k := range out.L {
				var alts []RefAlt
				ok := true
				same := true
				for _, v := range vs {
					if v.ref(k) != vs[0].ref(k) {
						same = false
					}
				}
				for i, v := range vs {
					r := v.ref(k)
					if r == nil || (r.Fn == nil && len(r.Alts) == 0) {
						ok = false
						break
					}
					if len(r.Alts) > 0 {
						for _, a := range r.Alts {
							alts = append(alts, RefAlt{mkAnd(guards[i], a.Guard), a.R})
						}
					} else {
						alts = append(alts, RefAlt{guards[i], r})
					}
				}
				if same {
					out.R[k] = vs[0].ref(k)
				} else if ok {
					out.R[k] = &Refine{Alts: alts}
				}
			}
		}
		return out
	}
	// cells
	allCells := map[*Cell]bool{}
	for _, s := range sts {
		for c := range s.cells {
			allCells[c] = true
		}
	}
	for c := range allCells {
		var vs []Val
		missing := false
		for _, s := range sts {
			v, ok := s.cells[c]
			if !ok {
				missing = true
				break
			}
			vs = append(vs, v)
		}
		if missing {
			for _, s := range sts {
				if v, ok := s.cells[c]; ok {
					m.cells[c] = v
					break
				}
			}
			continue
		}
		m.cells[c] = mergeVal(vs)
		if d := os.Getenv("GOVC_DEBUG_MERGE"); d != "" && d == c.name {
			fmt.Fprintf(os.Stderr, "merge cell %s: %v -> %v\n", c.name, vs, m.cells[c].L)
		}
	}
	// heap arrays
	allHeap := map[string]bool{}
	for _, s := range sts {
		for h := range s.heap {
			allHeap[h] = true
		}
	}
	for h := range allHeap {
		col := make([]string, len(sts))
		for i, s := range sts {
			t, ok := s.heap[h]
			if !ok {
				t = h + "!0"
				if so, ok2 := e.heapSorts[h]; ok2 {
					e.smt.Declare(t, nil, so)
				}
			}
			col[i] = t
		}
		v := pick(col)
		if strings.HasPrefix(v, "(ite") {
			if so, ok := e.heapSorts[h]; ok {
				c := e.smt.Fresh(h, so)
				m.assume(mkEq(c, v))
				v = c
			}
		}
		m.heap[h] = v
	}
	// ghost
	allGhost := map[string]bool{}
	for _, s := range sts {
		for g := range s.ghost {
			allGhost[g] = true
		}
	}
	for g := range allGhost {
		col := make([]string, len(sts))
		for i, s := range sts {
			t, ok := s.ghost[g]
			if !ok {
				t = "0"
				if s.sort[g] == SBool {
					t = "false"
				}
			}
			col[i] = t
		}
		m.ghost[g] = pick(col)
	}
	// lets
	if len(sts[0].lets) > 0 {
		nl := map[string]Val{}
		for k := range sts[0].lets {
			var vs []Val
			for _, s := range sts {
				vs = append(vs, s.lets[k])
			}
			nl[k] = mergeVal(vs)
		}
		m.lets = nl
	}
	// heap refinements: keep only those all states agree on
	m.heapRef = map[string]*Refine{}
	for k, r := range sts[0].heapRef {
		ok := true
		for _, s := range sts[1:] {
			if s.heapRef[k] != r {
				ok = false
				break
			}
		}
		if ok {
			m.heapRef[k] = r
		}
	}
	for _, s := range sts {
		m.spawned = m.spawned || s.spawned
	}
	var mex []Val
	if len(extras) > 0 {
		for k := range extras[0] {
			var vs []Val
			ok := true
			for _, ex := range extras {
				if k >= len(ex) {
					ok = false
					break
				}
				vs = append(vs, ex[k])
			}
			if ok {
				mex = append(mex, mergeVal(vs))
			}
		}
	}
	return m, mex
}
