#!/usr/bin/env python3
# Regenerates /verif/MANIFEST.json from the table below (kept in one place so the manifest is always valid).
import json
props=[json.loads(l) for l in open('/verif/properties.jsonl')]
claimed={
 "C02": ("fresh id per call from the one shared client counter, normalised to the wire form; every proxy shares the one client; request registered in the in-flight table under its own id before it is written; response looked up by its id, delivered exactly once to that entry's own mailbox, with the frame's fields unchanged, and exactly that key removed; response id equals request id on all three transports; each dequeued frame dispatched at most once, to exactly one handler; server replies echo the request id.",
         "'returns exactly once' as liveness and scheduling fairness are not decided; idCtr < 2^53 so float64 conversion is injective; the benign double delivery when closeInFlight races handleResponse's delete is outside the claim.", "5.2"),
 "C03": ("safety core: every I/O call may fail at each call site; the link is flagged unusable before tryReconnect on both loss paths; tryReconnect fails every in-flight call with the temporary error (range-visited invariant: all entries) before the table is reset, and never clears the flag itself; the flag is cleared only under both locks together with installing the new connection; requests dequeued while flagged down get exactly one local failure and are never registered; no dequeued request is dropped without completion or registration; the connection loop exits only for a stated cause and then fails calls, closes sinks and cancels; read deadline armed before every read.",
         "that a blocked caller is eventually woken (progress), byte-exact fault positions and stall detection times are not decided; ownership of the reader channel (only the single reader goroutine closes it) is an assumed protocol precondition checked at the spawn sites.", "5.3"),
 "C04": ("retry loop: a second sendRequest happens only if the function is retry-tagged, the previous answer carried the temporary-connection code, and after a backoff sleep; retry/notify flags come from the tags only; one proxy per struct field; notification requests carry no id and get one local completion; each frame dispatched once, one handler goroutine per call, doCall at most once per handle and never after a rejection; closeInFlight/closeChans/tryReconnect never send requests; HTTP requests are POSTs not marked idempotent (net/http would replay them).",
         "the transport delivers each written frame at most once (TCP/WebSocket/HTTP: external).", "5.4"),
 "C05": ("backoff.next result within [minDelay,maxDelay] for every attempt (reals + Go's float-to-int conversion rule); every dial in the redial loop is preceded by a sleep of next(attempts); attempts monotone; no dial factory => tryReconnect returns false and touches nothing; no-reconnect option drops the factory; state reset (flag cleared, pings restarted, reader restarted) only with a new connection under the write lock; retry loop gating and spacing; loop exits only for a stated cause (a peer close frame is not one).",
         "'eventually reconnects / eventually returns a genuine result' (liveness) is not decided; floats are treated as reals; configuration precondition 0 <= minDelay <= maxDelay.", "5.5"),
 "C09": ("handleReader output-token automaton (empty / one value / well-formed array) with loop invariant; handle: at most one reply, exactly one for id-bearing requests, none from handle when the channel forwarder answers; id echo and version on every constructed response; result XOR error in response.MarshalJSON; error codes tied to causes; no handler run on protocol errors; WS writer selection iff id.",
         "JSON syntax inside each encoded value is encoding/json's (assumed: one Encode = one complete value); handler results are serialisable; function-typed parameters (writer providers, rpcError) obey their function-type contracts, each concrete one verified separately.", "5.9"),
 "C10": ("zero-annotation no-panic sweep (index, slice, nil map write, nil deref of module structs, unchecked type assertion, unhashable map key, close of closed/nil channel, make with negative size, explicit panic) over every function reachable from peer bytes outside doCall's recover, under object invariants that are themselves obligations; size limit: reject exactly above the limit, never run a handler on an oversize body.",
         "progress ('does not wedge') is not decided; gorilla/websocket's frame parser and encoding/json are assumed total; preconditions on frameExecutor-internal functions are established by callers verified in the same run.", "5.10"),
 "C12": ("dispatch: the function passed to doCall is the direct entry if present, else the alias target, else -32601 and no call; registration key = formatter(namespace, method) on the server and name = tag or formatter(namespace, field) on the client; arity checked before any call; register stores only well-formed handler descriptors.",
         "injectivity of user-supplied formatters is not assumed or needed (congruence); strings are uninterpreted (strcat/substr/ToLower).", "5.12"),
 "C13": ("doCall never exits by panic; every panic of the reflective call is recovered and converted to the error produced from method name and raw payload; handle then sends exactly one error reply, runs done, writes no result, and has an empty frame (modifies nothing).",
         "panics in user codecs outside doCall and fatal runtime errors are outside the claim; methods of the panic payload are only invoked by fmt (which tolerates panicking String/Error).", "5.13"),
 "C14": ("every WriteJSON/WriteMessage/NextWriter on the websocket, every use and Close of the message writer, and the replacement of the connection happen with the connection's writeLk held (path-sensitive lockset); locks are released on every path and never re-acquired; acquisition order follows the declared acyclic order; guarded-by discipline for inflight, handling, chanHandlers, incomingErr; every field of wsConn is classified guarded / immutable-after-construction / declared unsync, so new shared state without a synchronisation class is reported; nextWriter: one writer = one message, callback exactly once.",
         "gorilla/websocket honours its documented concurrency contract (one concurrent writer, one reader; Close/WriteControl free); reads of the fields declared `unsync` (conn, incoming, stopPings, chanCtr) are not ordered by a lock by design and are listed, not checked; writes before the first goroutine is started in handleWsConn are treated as construction.", "5.14"),
 "C19": ("HasPerm result == membership of the required permission in (attached set if a []Permission is attached, even empty or nil, else the defaults), for all slices (loop invariant); WithPerm attaches exactly its argument; proxy wrapper calls the implementation iff HasPerm, else 0 calls and an error; HTTP handler: token extraction, 401 paths never call Next, Verify sees exactly the presented token, attached permissions = verifier result.",
         "reflect.MakeFunc/Call and context.WithValue/Value are axiomatised; strings uninterpreted.", "5.19"),
}
na_reason={
 "C17":"real-time property (ping interval vs timeout, bounded detection time): the contract language and VC semantics have no clock; see DESIGN.md §7",
 "C18":"deadlock-freedom/progress of several goroutines at an arbitrary close instant: partial-correctness contracts cannot express it; see DESIGN.md §7",
}
checks=[]; na=[]
for p in props:
    i=p['id']
    if i in claimed:
        text,note,ref=claimed[i]
        checks.append({"property_id":i,"quick_cmd":"./check %s quick"%i,"thorough_cmd":"./check %s thorough"%i,
          "evidence_file":"/verif/evidence/%s.json"%i,"replay_cmd_template":"./check %s quick --replay {path}"%i,"engine":"govc",
          "level_claimed":{"category":"proof","text":text,"design_ref":"DESIGN.md §"+ref},
          "level_note":note+" Trusted base: the govc VC generator, x/tools go/ssa, the SMT solvers, the prelude contracts (/verif/prelude) — every assumed contract used by a run is listed in its evidence file. Partial correctness only.",
          "technique":"contract-based deductive verification: weakest-precondition style VC generation over go/ssa of the real code, contracts as //@ comments, obligations discharged by z3/cvc5"})
    else:
        na.append({"property_id":i,"reason":na_reason.get(i,"not claimed yet: contracts for this property are still being built in this session (see DESIGN.md build order)")})
m={"version":1,"setup_cmd":"./setup.sh",
 "hooks":{"guard":"verif","enable":"contract files verif_contracts.go (comment-only, //go:build verif) are read by the checker; go build -tags verif ./... compiles the same code","baseline_off_cmd":"cd /repo && go test -vet=off -count=1 -timeout 25m ./...","source_commits":[],"add_only":True},
 "engines":[{"name":"govc","path":"/verif/tool","serves_properties":sorted(claimed),"kind_free_text":"VC generator over go/ssa (naive form) of the real code + SMT portfolio (z3 5.1, z3 4.8.12, cvc5 1.0): contract-based deductive verification"}],
 "checks":checks,"not_applicable":na,
 "notes":"Every check rebuilds SSA from /repo's working tree on each run. Genuine defects found and fixed are listed in /verif/known-findings.json; seeded changes used to test the checks are in /verif/seeded/."}
json.dump(m,open('/verif/MANIFEST.json','w'),indent=1)
print("manifest:",len(checks),"checks,",len(na),"n/a")
