#!/bin/bash
# Builds the verifier from sources on disk only (offline).
set -e
cd "$(dirname "$0")"
export GOFLAGS=-mod=mod GOPROXY=off GOSUMDB=off GOTOOLCHAIN=local
export PATH=$PATH:/usr/local/go/bin:/root/go/bin
mkdir -p bin evidence out
(cd tool && go build -o ../bin/govc .)
echo "govc built"
