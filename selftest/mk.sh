#!/bin/bash
# selftest/mk.sh <name> <prop> <obligation-substring|-> <file> <python-replace-old> <python-replace-new>
# creates selftest/mutants/<name>.patch from a textual replacement in /repo/<file> and registers the expectation
set -e
cd "$(dirname "$0")/.."
name=$1; prop=$2; want=$3; file=$4; old=$5; new=$6
T=$(mktemp -d /tmp/mk.XXXXXX); mkdir -p $T/a/$(dirname $file) $T/b/$(dirname $file)
cp /repo/$file $T/a/$file; cp /repo/$file $T/b/$file
python3 - "$T/b/$file" "$old" "$new" <<'PY'
import sys
p,old,new=sys.argv[1:4]
s=open(p).read()
assert s.count(old)>=1, "pattern not found: "+old
s=s.replace(old,new,1)
open(p,'w').write(s)
PY
(cd $T && diff -u a/$file b/$file > $OLDPWD/selftest/mutants/$name.patch || true)
rm -rf $T
grep -v "mutants/$name.patch" selftest/expect.tsv > selftest/expect.tmp || true; mv selftest/expect.tmp selftest/expect.tsv
printf 'selftest/mutants/%s.patch\t%s\t%s\n' "$name" "$prop" "$want" >> selftest/expect.tsv
echo "created $name"
