#!/bin/bash
# selftest/benign.sh: property-preserving changes must not raise an alarm (false-alarm canaries).
cd "$(dirname "$0")/.."
export GOFLAGS=-mod=mod GOPROXY=off GOSUMDB=off GOTOOLCHAIN=local
SCR=$(mktemp -d /tmp/govc-benign.XXXXXX); trap 'rm -rf "$SCR"' EXIT
fail=0
for patch in selftest/benign/${ONLY:-}*.patch; do
  rm -rf "$SCR/repo"; mkdir -p "$SCR/repo"; (cd /repo && git ls-files -z | xargs -0 cp --parents -t "$SCR/repo")
  (cd "$SCR/repo" && patch -s -p1 < "$OLDPWD/$patch") || { echo "BENIGN-ERROR cannot apply $patch"; fail=1; continue; }
  (cd "$SCR/repo" && go build ./... ) || { echo "BENIGN-ERROR $patch does not compile"; fail=1; continue; }
  bad=""
  for p in ${PROPS:-C01 C02 C03 C04 C05 C06 C07 C08 C09 C10 C11 C12 C13 C14 C15 C16 C19 C20}; do
    ./bin/govc -prop $p -tier quick -repo "$SCR/repo" -verif "$(pwd)" -out "$SCR/out" -noreplay >/dev/null 2>&1 || bad="$bad $p"
  done
  if [ -z "$bad" ]; then echo "BENIGN-OK    $patch"; else echo "BENIGN-ALARM $patch:$bad"; fail=1; fi
done
exit $fail
