#!/bin/bash
# selftest/benign.sh: property-preserving changes must not raise an alarm (false-alarm canaries).
# env: ONLY=<prefix of patch name>  PROPS="C01 ..."  JOBS=<parallel patches, default 8>
cd "$(dirname "$0")/.."
export GOFLAGS=-mod=mod GOPROXY=off GOSUMDB=off GOTOOLCHAIN=local
export VERIF_DIR=$(pwd)
export PROPS="${PROPS:-C01 C02 C03 C04 C05 C06 C07 C08 C09 C10 C11 C12 C13 C14 C15 C16 C19 C20}"
one() {
  patch=$1
  SCR=$(mktemp -d /tmp/govc-benign.XXXXXX); mkdir -p "$SCR/repo"
  (cd /repo && git ls-files -z | xargs -0 cp --parents -t "$SCR/repo")
  if ! (cd "$SCR/repo" && patch -s -p1 < "$VERIF_DIR/$patch"); then echo "BENIGN-ERROR cannot apply $patch"; rm -rf "$SCR"; return; fi
  if ! (cd "$SCR/repo" && go build ./... ); then echo "BENIGN-ERROR $patch does not compile"; rm -rf "$SCR"; return; fi
  bad=""
  for p in $PROPS; do
    "${GOVC:-$VERIF_DIR/bin/govc}" -prop $p -tier quick -repo "$SCR/repo" -verif "$VERIF_DIR" -out "$SCR/out" -noreplay >/dev/null 2>&1 || bad="$bad $p"
  done
  if [ -z "$bad" ]; then echo "BENIGN-OK    $patch"; else echo "BENIGN-ALARM $patch:$bad"; fi
  rm -rf "$SCR"
}
export -f one
out=$(ls selftest/benign/${ONLY:-}*.patch | xargs -P "${JOBS:-8}" -I{} bash -c 'one {}')
echo "$out" | sort
if echo "$out" | grep -q -E "BENIGN-(ALARM|ERROR)"; then exit 1; fi
exit 0
