#!/bin/bash
# Must-fail corpus: applies each patch of selftest/mutants (and seeded/*/patch.diff) to a scratch copy of /repo and
# expects the named property check to report a VIOLATION. Usage: selftest/run.sh [pattern]
# Expectations are in selftest/expect.tsv: <patch file relative to /verif>\t<property>\t<obligation substring or ->
set -u
cd "$(dirname "$0")/.."
VERIF=$(pwd)
PAT="${1:-}"
SCR=$(mktemp -d /tmp/govc-selftest.XXXXXX)
trap 'rm -rf "$SCR"' EXIT
fail=0; n=0
while IFS=$'\t' read -r patch prop want; do
  [ -z "$patch" ] && continue
  case "$patch" in \#*) continue;; esac
  if [ -n "$PAT" ] && ! printf "%s\t%s\t" "$patch" "$prop" | grep -q -P -- "$PAT"; then continue; fi
  n=$((n+1))
  rm -rf "$SCR/repo"; mkdir -p "$SCR/repo"
  (cd /repo && git ls-files -z | xargs -0 cp --parents -t "$SCR/repo") 2>/dev/null
  if ! (cd "$SCR/repo" && patch -s -p1 < "$VERIF/$patch"); then echo "SELFTEST-ERROR cannot apply $patch"; fail=1; continue; fi
  out=$(VERIF_REPO="$SCR/repo" ./bin/govc -prop "$prop" -tier quick -repo "$SCR/repo" -verif "$VERIF" -out "$SCR/verifout" 2>&1); rc=$?
  if [ $rc -eq 1 ] && echo "$out" | grep -q "^VIOLATION property=$prop"; then
    if [ "$want" != "-" ] && ! ls "$SCR/verifout/replays/$prop/" 2>/dev/null | grep -q -- "$want"; then
      echo "SELFTEST-WEAK $patch: $prop alarms but not on obligation '$want': $(ls $SCR/verifout/replays/$prop | tr '\n' ' ')"
    else
      echo "SELFTEST-OK   $patch -> $prop ($(echo "$out" | grep -c '^VIOLATION') violation lines)"
    fi
  else
    echo "SELFTEST-MISS $patch: $prop did not alarm (exit $rc)"; echo "$out" | tail -3; fail=1
  fi
  rm -rf "$SCR/verifout"
done < selftest/expect.tsv
echo "selftest: $n mutants, fail=$fail"
exit $fail
