//go:build verif

package auth

//@ property C19 units: auth.HasPerm

//@ func auth.HasPerm
//@   ensures found: result ==> true [C19]
