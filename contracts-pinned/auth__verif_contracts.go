//go:build verif

package auth

// Contracts for contract-based deductive verification (checked by /verif/tool, see /verif/DESIGN.md).
// Comments only; compiled only with the build tag `verif`.

//@ property C19 units: auth.WithPerm, auth.HasPerm, auth.PermissionedProxy, auth.PermissionedProxy$1, (*auth.Handler).ServeHTTP

//@ static permission-context-key-has-a-private-type: #permKey != #int [C19]
//@ -- the caller's permission set: what is attached to the context (even if empty), otherwise the defaults
//@ pred attached(ctx) := istype(ctxValue(ctx, box(permCtxKey)), #[]Permission)
//@ pred callerSet(ctx, def) := ite(attached(ctx), unbox(ctxValue(ctx, box(permCtxKey)), #[]Permission), def)
//@ pred member(s, p) := exists k :: 0 <= k && k < len(s) && s[k] == p

//@ func auth.WithPerm
//@   safety
//@   modifies nothing
//@   ensures attaches-exactly: attached(result) && unbox(ctxValue(result, box(permCtxKey)), #[]Permission) == perms [C19]
//@   nopanic [C19]

//@ func auth.HasPerm
//@   safety
//@   modifies nothing
//@   loop 1 invariant none-so-far: forall k :: 0 <= k && k <= rangeindex ==> callerPerms[k] != perm [C19]
//@   ensures found-has-witness: result ==> 0 <= rangeindex && rangeindex < len(callerSet(ctx, defaultPerms)) && callerSet(ctx, defaultPerms)[rangeindex] == perm [C19]
//@   ensures not-found-means-absent: !result ==> (forall k :: 0 <= k && k < len(callerSet(ctx, defaultPerms)) ==> callerSet(ctx, defaultPerms)[k] != perm) [C19]
//@   nopanic [C19]

//@ func auth.PermissionedProxy
//@   safety
//@   may_panic
//@   loop 1 invariant every-field-so-far-wrapped: f >= 0 && calls(MakeFunc) == f [C19]
//@   loop 2 invariant validated-means-listed: ok ==> 0 <= rangeindex && rangeindex < len(validPerms) && validPerms[rangeindex] == requiredPerm [C19]
//@   at call reflect.MakeFunc: assert wrapper-only-for-a-listed-tag: 0 <= rangeindex && rangeindex < len(validPerms) && validPerms[rangeindex] == requiredPerm && requiredPerm != "" [C19]
//@   ensures every-method-gets-a-checking-wrapper: calls(MakeFunc) == rNumField(rtypeOf(rint)) [C19]

//@ func auth.PermissionedProxy$1
//@   safety
//@   may_panic
//@   requires len(args) >= 1 && istype(ifaceOf(args[0]), #context.Context)
//@   ghost permOK : Bool = false
//@   ghost callRes : U = nil
//@   at call HasPerm: assert checks-required-perm: $2 == requiredPerm && $1 == defaultPerms [C19]
//@   at ret HasPerm: set permOK = $result0
//@   at call (reflect.Value).Call: assert impl-only-with-perm: permOK [C19]
//@   at call (reflect.Value).Call: assert calls-the-wrapped-method: $0 == fn && $1 == args [C19]
//@   ensures denied-means-not-invoked: !permOK ==> calls(Call) == 0 && calls(Errorf) == 1 [C19]
//@   at call reflect.Zero: assert zero-value-of-the-value-result: $0 == OutT(field.Type, 0) && NumOut(field.Type) == 2 [C19]
//@   ensures denied-result-has-the-methods-shape: !permOK ==> len(result) == ite(NumOut(field.Type) == 2, 2, 1) [C19]
//@   ensures allowed-means-invoked-once: permOK ==> calls(Call) == 1 [C19]

//@ func (*auth.Handler).ServeHTTP
//@   safety
//@   requires h.Next != nil && h.Verify != nil
//@   ghost hdr : U = nil
//@   ghost q : U = nil
//@   ghost pfx : Bool = false
//@   ghost verr : U = nil
//@   at ret (net/http.Header).Get: set hdr = $result0
//@   at ret FormValue: set q = $result0
//@   at ret strings.HasPrefix: set pfx = $result0
//@   at ret dyn:h.Verify: set verr = $result1
//@   at ret dyn:h.Verify: let allow = $result0
//@   at ret (*net/http.Request).Context: let rctx = $result0
//@   at call strings.HasPrefix: assert checks-bearer-prefix: $1 == "Bearer " && $0 == ite(hdr != "", hdr, strcat("Bearer ", q)) [C19]
//@   at call dyn:h.Verify: assert verifies-the-presented-token: $1 == trimPrefix(ite(hdr != "", hdr, strcat("Bearer ", q)), "Bearer ") && pfx [C19]
//@   at call auth.WithPerm: assert attaches-verifier-result: $1 == allow && $0 == rctx && verr == nil [C19]
//@   at call WriteHeader: assert rejects-with-401: $1 == 401 [C19]
//@   at call dyn:h.Next: assert next-only-for-tokenless-or-verified: (hdr == "" && q == "") || (pfx && verr == nil && calls(Verify) == 1 && calls(WithPerm) == 1) [C19]
//@   ensures tokenless-passes-through: hdr == "" && q == "" ==> calls(Next) == 1 && calls(Verify) == 0 && calls(WithPerm) == 0 && calls(WriteHeader) == 0 [C19]
//@   ensures bad-prefix-is-401: !(hdr == "" && q == "") && !pfx ==> calls(WriteHeader) == 1 && calls(Next) == 0 && calls(Verify) == 0 [C19]
//@   ensures rejected-is-401: !(hdr == "" && q == "") && pfx && verr != nil ==> calls(WriteHeader) == 1 && calls(Next) == 0 [C19]
//@   ensures verified-passes-once: !(hdr == "" && q == "") && pfx && verr == nil ==> calls(Next) == 1 && calls(WriteHeader) == 0 [C19]
