//go:build verif

package jsonrpc

// Contracts for contract-based deductive verification (checked by /verif/tool, see /verif/DESIGN.md).
// This file contains comments only; it is compiled only with the build tag `verif` and adds no code.

//@ property C10 units: normalizeID, (*wsConn).cancelCtx, (*wsConn).handleChanMessage, (*wsConn).handleChanClose, (*wsConn).handleResponse, (*wsConn).handleFrame, (*wsConn).frameExecutor, (*wsConn).handleCall, (*wsConn).readFrame, (*wsConn).nextMessage, (*handler).handleReader, (*handler).handle, rpcError, (*handler).createError, (response).MarshalJSON, (*handler).getSpan, (*JSONRPCError).val, (*rpcFunc).processResponse, (*client).makeOutChan$1$2
//@ property C13 units: doCall, (*handler).handle
//@ property C05 units: (*backoff).next

//@ -- ------------------------------------------------------------------ shared vocabulary
//@ pred idok(x) := typeof(x) == #string || typeof(x) == #float64 || x == nil
//@ pred wfHandler(h) := (h.hasCtx == 0 || h.hasCtx == 1) && h.nParams >= 0 && len(h.paramReceivers) == h.nParams && (h.hasRawParams ==> h.nParams >= 1) && (h.errOut == -1 || (0 <= h.errOut && h.errOut < NumOut(rtypeOf(h.handlerFunc)))) && (h.valOut == -1 || (0 <= h.valOut && h.valOut < NumOut(rtypeOf(h.handlerFunc)))) && (h.errOut != -1 ==> OutT(rtypeOf(h.handlerFunc), h.errOut) == errorType)
//@ pred handlersOK(s) := s.methods != nil && (forall k: U :: present(s.methods, k) ==> wfHandler(s.methods[k])) && (forall t: U :: present(s.paramDecoders, t) ==> s.paramDecoders[t] != nil)
//@ axiom error-typed-values: forall v: U :: rtypeOf(v) == errorType ==> (ifaceOf(v) == nil || istype(ifaceOf(v), #error))
//@ axiom codec-typed-values: forall v: U :: rImplements(rtypeOf(v), errorCodecRT) ==> istype(ifaceOf(v), #RPCErrorCodec)
//@ axiom marshalable-typed-values: forall v: U :: rImplements(rtypeOf(v), marshalableRT) ==> istype(ifaceOf(v), #marshalable)
//@ pred wfRpcFunc(fn) := fn.client != nil && fn.nout >= 0 && (fn.valOut == -1 || (0 <= fn.valOut && fn.valOut < fn.nout)) && (fn.errOut == -1 || (0 <= fn.errOut && fn.errOut < fn.nout)) && (fn.hasCtx == 0 || fn.hasCtx == 1)

//@ -- ------------------------------------------------------------------ locks
//@ lockorder wsConn.writeLk < wsConn.errLk
//@ lockorder wsConn.writeLk < wsConn.inflightLk
//@ lockorder wsConn.chanHandlersLk < chanHandler.lk
//@ guards wsConn.inflightLk: wsConn.inflight inv tables-nonnil: self.inflight != nil [C10,C14]
//@ guards wsConn.handlingLk: wsConn.handling inv handling-ok: self.handling != nil && (forall k: U :: present(self.handling, k) ==> self.handling[k] != nil) [C10,C14]
//@ guards wsConn.chanHandlersLk: wsConn.chanHandlers inv sinks-ok: self.chanHandlers != nil && (forall k :: present(self.chanHandlers, k) ==> self.chanHandlers[k] != nil && self.chanHandlers[k].cb != nil) [C10,C14]
//@ guards wsConn.errLk: wsConn.incomingErr [C14]

//@ -- function types: what every value of the type guarantees (each concrete function of that type is verified against it)
//@ functype makeChanSink
//@   ensures result1 != nil
//@ -- ------------------------------------------------------------------ websocket.go
//@ func normalizeID
//@   modifies nothing
//@   ensures idok: result1 == nil ==> idok(result0) [C10,C02,C09]
//@   ensures err-or-id: result1 != nil ==> result0 == nil [C09]
//@   nopanic [C10]

//@ func (*wsConn).cancelCtx
//@   nopanic [C10]

//@ func (*wsConn).handleChanMessage
//@   nopanic [C10]

//@ func (*wsConn).handleChanClose
//@   nopanic [C10]

//@ func (*wsConn).handleResponse
//@   requires idok(frame.ID)
//@   nopanic [C10]

//@ func (*wsConn).handleCall
//@   requires idok(frame.ID)
//@   nopanic [C10]

//@ func (*wsConn).handleFrame
//@   requires idok(frame.ID)
//@   nopanic [C10]

//@ func (*wsConn).frameExecutor
//@   requires ctx != nil
//@   nopanic [C10]

//@ func (*wsConn).readFrame
//@   requires c.incoming != nil && !closed(c.incoming)
//@   nopanic [C10]

//@ func (*wsConn).nextMessage
//@   requires c.incoming != nil && !closed(c.incoming)
//@   nopanic [C10]

//@ func (*client).makeOutChan$1$2
//@   requires incoming != nil && !closed(incoming)
//@   requires 0 <= valOut && valOut < NumOut(ftyp)
//@   nopanic [C10]

//@ -- ------------------------------------------------------------------ handler.go / server.go
//@ func (*handler).handleReader
//@   requires rpcError != nil && handlersOK(s)
//@   ghost sizeRejected : Bool = false
//@   at ret ReadFrom: let nread = $result0
//@   at ret ReadFrom: let readErr = $result1
//@   at call xerrors.Errorf: set sizeRejected = sizeRejected || $0 == "request bigger than maximum %d allowed"
//@   at call handle: assert no-handler-when-oversize: nread <= s.maxRequestSize [C10]
//@   loop 1 invariant not-size-rejected: !sizeRejected [C10]
//@   ensures reject-exactly-above-limit: readErr == nil ==> (sizeRejected == (nread > s.maxRequestSize)) [C10]
//@   ensures oversize-never-handled: sizeRejected ==> calls(handle) == 0 && calls(rpcError) == 1 [C10]
//@   nopanic [C10]

//@ func (*handler).handle
//@   modifies nothing
//@   requires rpcError != nil && w != nil && done != nil && handlersOK(s)
//@   loop 1 invariant param-index: i >= 0 [C10,C01,C12]
//@   ghost callErr : U = nil
//@   at ret doCall: set callErr = $result1
//@   ensures done-always-runs: calls(done) >= 1 [C13,C06,C15]
//@   ensures panic-gets-one-error-reply: callErr != nil ==> calls(rpcError) == 1 && calls(withLazyWriter) == 0 [C13,C09]
//@   nopanic [C10]

//@ func rpcError
//@   modifies nothing
//@   requires wf != nil
//@   nopanic [C10]

//@ func (*handler).createError
//@   modifies nothing
//@   requires err != nil
//@   ensures result != nil [C11,C10]
//@   nopanic [C10]

//@ func (*handler).getSpan
//@   modifies nothing
//@   nopanic [C10]

//@ func (response).MarshalJSON
//@   modifies nothing
//@   nopanic [C10]

//@ func (*JSONRPCError).val
//@   modifies nothing
//@   nopanic [C10]

//@ func (*rpcFunc).processResponse
//@   modifies nothing
//@   requires wfRpcFunc(fn)
//@   nopanic [C10]

//@ func doCall
//@   modifies nothing
//@   nopanic [C13]
//@   ensures result-shape: result1 == nil ==> len(result0) == NumOut(rtypeOf(f)) && (forall i :: 0 <= i && i < len(result0) ==> rtypeOf(result0[i]) == OutT(rtypeOf(f), i)) [C13,C10,C01]
//@   ensures panic-is-error: didpanic() ==> result1 != nil && result1 == panicErr [C13]
//@   ghost panicErr : U = nil
//@   at ret xerrors.Errorf: set panicErr = $result0
//@   at call xerrors.Errorf: assert error-mentions-method-and-payload: unbox($1[0], #string) == methodName && $1[1] == i && i != nil [C13]

//@ func (*backoff).next
//@   modifies nothing
//@   requires 0 <= b.minDelay && b.minDelay <= b.maxDelay
//@   ensures in-range: attempt >= 0 ==> b.minDelay <= result && result <= b.maxDelay [C05]
//@   ensures neg: attempt < 0 ==> result == b.minDelay [C05]
