//go:build verif

package jsonrpc

// Contracts for contract-based deductive verification (checked by /verif/tool, see /verif/DESIGN.md).
// This file contains comments only; it is compiled only with the build tag `verif` and adds no code.

//@ property C10 units: WithMaxRequestSize$1, NewServer, (*RPCServer).HandleRequest, websocketClient, normalizeID, (*wsConn).cancelCtx, (*wsConn).handleChanMessage, (*wsConn).handleChanClose, (*wsConn).handleResponse, (*wsConn).handleFrame, (*wsConn).frameExecutor, (*wsConn).handleCall, (*wsConn).readFrame, (*wsConn).nextMessage, (*handler).handleReader, (*handler).handle, rpcError, (*handler).createError, (response).MarshalJSON, (*handler).getSpan, (*JSONRPCError).val, (*rpcFunc).processResponse, (*client).makeOutChan$1$2
//@ property C09 units: (*handler).handleReader$1, (*handler).handleReader$2, (*wsConn).handleCall$1, (*RPCServer).HandleRequest, (*handler).handleReader, (*handler).handle, (*handler).handle$1, rpcError, rpcError$1, (response).MarshalJSON, normalizeID, withLazyWriter, (*wsConn).handleCall, (*wsConn).handleOutChans$1
//@ property C12 units: WithMethodNameFormatter$1, WithServerMethodNameFormatter$1, NewServer, (*RPCServer).Register, NewMergeClient, makeHandler, (*handler).register, (*handler).handle, processFuncOut, (*client).makeRpcFunc, NewMethodNameFormatter$1, (*RPCServer).AliasMethod, WithClientHandlerAlias$1, NewCustomClient
//@ property C14 units: (*wsConn).setupPings$1, (*wsConn).setupPings$2, (*wsConn).setupPings$5$1, (*deadlineResetReader).Read, (*wsConn).nextWriter, (*wsConn).sendRequest, (*wsConn).setupPings, (*wsConn).setupPings$4, (*wsConn).handleWsConn, (*wsConn).tryReconnect, (*wsConn).tryReconnect$1, (*wsConn).handleOutChans, (*wsConn).handleCtxAsync, (*wsConn).nextMessage, (*wsConn).handleResponse, (*wsConn).handleCall, (*wsConn).handleCall$3, (*wsConn).cancelCtx, (*wsConn).handleChanMessage, (*wsConn).handleChanClose, (*wsConn).closeInFlight, (*wsConn).closeChans, (*wsConn).readFrame, (*wsConn).resetReadDeadline, withLazyWriter, (*lazyWriter).Write, (*lazyWriter).Write$1$1
//@ property C05 units: WithReconnectBackoff$1, WithNoReconnect$1, websocketClient$1, (*RPCConnectionError).Error, (*RPCConnectionError).Unwrap, WithErrors$1, NewErrors, (*JSONRPCError).val, (*backoff).next, (*wsConn).tryReconnect, (*wsConn).tryReconnect$1, (*wsConn).handleWsConn, websocketClient, (*rpcFunc).handleRpcCall, (*wsConn).closeInFlight
//@ property C03 units: websocketClient$3, (*client).setupRequestChan, (*deadlineResetReader).Read, (*wsConn).resetReadDeadline, (*wsConn).handleWsConn, (*wsConn).tryReconnect, (*wsConn).tryReconnect$1, (*wsConn).closeInFlight, (*wsConn).nextMessage, (*wsConn).readFrame, (*client).setupRequestChan$1, (*wsConn).sendRequest, (*wsConn).handleResponse, websocketClient
//@ property C02 units: (*rpcFunc).handleRpcCall, normalizeID, (*client).makeRpcFunc, (*client).setupRequestChan$1, httpClient$1, NewCustomClient$1, (*wsConn).handleWsConn, (*wsConn).handleResponse, (*wsConn).closeInFlight, (*wsConn).frameExecutor, (*wsConn).handleFrame, (*wsConn).handleCall, (*handler).handle, rpcError$1
//@ property C04 units: (*rpcFunc).handleRpcCall, (*client).makeRpcFunc, (*client).provide, httpClient$1, (*wsConn).handleWsConn, (*wsConn).frameExecutor, (*wsConn).handleFrame, (*wsConn).handleCall, (*handler).handle, (*wsConn).closeInFlight, (*wsConn).closeChans, (*wsConn).tryReconnect, (*wsConn).tryReconnect$1
//@ property C06 units: (*client).setupRequestChan$1, (*wsConn).handleCtxAsync, (*wsConn).handleResponse, (*wsConn).cancelCtx, (*wsConn).handleCall, (*wsConn).handleCall$2, (*wsConn).handleCall$3, (*handler).handle, (*wsConn).closeInFlight, (*RPCServer).ServeHTTP, (*handler).handleReader, httpClient$1, (*wsConn).handleFrame, (*rpcFunc).handleRpcCall
//@ property C15 units: (*handler).handleReader$1, (*wsConn).handleCall$1, (*lazyWriter).Write$1, websocketClient$2$1, (*RPCServer).handleWS$1, (*wsConn).handleWsConn, (*wsConn).handleCall, (*wsConn).closeInFlight, (*wsConn).nextWriter, (*wsConn).readFrame, (*wsConn).frameExecutor, (*client).sendRequest, (*client).setupRequestChan$1, (*wsConn).handleOutChans, (*wsConn).handleChanOut, withLazyWriter, (*lazyWriter).Write, (*lazyWriter).Write$1$1, (*RPCServer).handleWS
//@ property C16 units: WithClientHandler$1, websocketClient$2$1, WithReverseClient$1$1, ExtractReverseClient, (*RPCServer).handleWS, (*RPCServer).ServeHTTP, (*client).setupRequestChan$1, (*wsConn).handleChanOut, websocketClient, WithClientHandlerAlias$1, (*wsConn).closeInFlight, (*wsConn).handleWsConn, (*wsConn).handleCall, (*handler).handle
//@ property C07 units: (*client).makeOutChan$1, (*client).setupRequestChan, (*wsConn).handleOutChans, (*wsConn).handleOutChans$1, (*wsConn).handleChanOut, (*handler).handle, (*wsConn).handleResponse, (*wsConn).handleChanMessage, (*client).makeOutChan$1$1, (*client).makeOutChan$1$2, (*wsConn).handleFrame, (*param).MarshalJSON, (*param).UnmarshalJSON
//@ property C08 units: (*client).makeOutChan$1, (*wsConn).setupPings$5$1, (*wsConn).handleChanOut, (*wsConn).handleOutChans, (*wsConn).handleChanClose, (*wsConn).closeChans, (*wsConn).handleChanMessage, (*wsConn).tryReconnect, (*wsConn).handleWsConn, (*client).makeOutChan$1$1, (*client).makeOutChan$1$2, (*wsConn).handleResponse, (*wsConn).resetReadDeadline
//@ property C11 units: (*ErrClient).Error, (*ErrClient).Unwrap, WithErrors$1, WithServerErrors$1, (*client).setupRequestChan$1, (*handler).createError, (*Errors).Register, NewErrors, (*JSONRPCError).val, (*JSONRPCError).Error, (*rpcFunc).processResponse, (*rpcFunc).processError, (*handler).handle, (response).MarshalJSON, processFuncOut, (*wsConn).handleResponse, NewCustomClient
//@ property C01 units: WithParamEncoder$1, WithParamDecoder$1, DecodeParams, NewCustomClient, httpClient, (*deadlineResetReader).Read, defaultConfig, defaultServerConfig, processFuncOut, (*param).MarshalJSON, (*param).UnmarshalJSON, (*client).makeRpcFunc, (*client).provide, (*rpcFunc).handleRpcCall, (*rpcFunc).processResponse, (*rpcFunc).processError, (*client).sendRequest, NewCustomClient$1, httpClient$1, (*client).setupRequestChan$1, (*handler).register, (*handler).handle, doCall, (response).MarshalJSON, (*wsConn).handleResponse, (*wsConn).handleCall, NewMethodNameFormatter$1, (*RPCServer).AliasMethod
//@ property C13 units: doCall, (*handler).handle, rpcError$1, httpClient$1

//@ -- ------------------------------------------------------------------ shared vocabulary
//@ pred idok(x) := typeof(x) == #string || typeof(x) == #float64 || x == nil
//@ pred wfHandler(h) := (h.hasCtx == 0 || h.hasCtx == 1) && h.nParams >= 0 && len(h.paramReceivers) == h.nParams && (h.hasRawParams ==> h.nParams >= 1) && (h.errOut == -1 || (0 <= h.errOut && h.errOut < NumOut(rtypeOf(h.handlerFunc)))) && (h.valOut == -1 || (0 <= h.valOut && h.valOut < NumOut(rtypeOf(h.handlerFunc)))) && (h.errOut != -1 ==> OutT(rtypeOf(h.handlerFunc), h.errOut) == errorType)
//@ pred handlersOK(s) := s.methods != nil && (forall k: U :: present(s.methods, k) ==> wfHandler(s.methods[k])) && (forall t: U :: present(s.paramDecoders, t) ==> s.paramDecoders[t] != nil)
//@ axiom error-typed-values: forall v: U :: rtypeOf(v) == errorType ==> (ifaceOf(v) == nil || istype(ifaceOf(v), #error))
//@ axiom codec-typed-values: forall v: U :: rImplements(rtypeOf(v), errorCodecRT) ==> istype(ifaceOf(v), #RPCErrorCodec)
//@ axiom marshalable-typed-values: forall v: U :: rImplements(rtypeOf(v), marshalableRT) ==> istype(ifaceOf(v), #marshalable)
//@ pred wfRpcFunc(fn) := fn.client != nil && fn.nout >= 0 && (fn.valOut == -1 || (0 <= fn.valOut && fn.valOut < fn.nout)) && (fn.errOut == -1 || (0 <= fn.errOut && fn.errOut < fn.nout)) && (fn.hasCtx == 0 || fn.hasCtx == 1) && fn.nout == NumOut(fn.ftyp) && (fn.returnValueIsChannel ==> fn.valOut != -1) && (fn.valOut == -1 || fn.errOut == -1 || fn.valOut != fn.errOut)

//@ -- output automaton of an HTTP reply: 0 empty, 1 one value, 2 '[' written, 3 array ends with a value, 4 array ends with ',', 5 closed, 9 malformed
//@ pred tokOf(b) := ite(isbytes(b, "["), 1, ite(isbytes(b, ","), 2, ite(isbytes(b, "]"), 3, 0)))
//@ pred step(s, t) := ite(t == 1, ite(s == 0, 2, 9), ite(t == 2, ite(s == 3, 4, 9), ite(t == 3, ite(s == 2 || s == 3, 5, 9), ite(s == 2 || s == 4, 3, 9))))
//@ pred selected(s, m) := ite(present(s.methods, m), s.methods[m], s.methods[s.aliasedMethods[m]])
//@ pred resolvable(s, m) := present(s.methods, m) || (s.aliasedMethods != nil && present(s.aliasedMethods, m) && present(s.methods, s.aliasedMethods[m]))
//@ -- ------------------------------------------------------------------ locks
//@ lockorder wsConn.writeLk < wsConn.errLk
//@ lockorder wsConn.writeLk < wsConn.inflightLk
//@ lockorder wsConn.chanHandlersLk < chanHandler.lk
//@ guards wsConn.inflightLk: wsConn.inflight inv tables-nonnil: self.inflight != nil [C10,C14]
//@ guards wsConn.handlingLk: wsConn.handling inv handling-ok: self.handling != nil && (forall k: U :: present(self.handling, k) ==> self.handling[k] != nil) [C10,C14]
//@ pred sinksOK(c) := c.chanHandlers != nil && (forall k :: present(c.chanHandlers, k) ==> c.chanHandlers[k] != nil && c.chanHandlers[k].cb != nil)
//@ guards wsConn.chanHandlersLk: wsConn.chanHandlers inv sinks-ok: sinksOK(self) [C10,C14,C08]
//@ guards wsConn.errLk: wsConn.incomingErr [C14]
//@ guards wsConn.writeLk: wsConn.conn(w), wsConn.stopPings(w) [C14]
//@ sharedtype wsConn
//@ immutable wsConn.connFactory, wsConn.reconnectBackoff, wsConn.pingInterval, wsConn.timeout, wsConn.handler, wsConn.requests, wsConn.pongs, wsConn.stop, wsConn.exiting, wsConn.readError, wsConn.frameExecQueue, wsConn.registerCh
//@ unsync wsConn.conn: read without the lock by design; replaced only by the reconnect goroutine (under writeLk) before it starts the new reader
//@ unsync wsConn.stopPings: called by the connection loop and the reconnect goroutine, which never run the call concurrently (reconnect goroutine is started by the loop and replaces it before the loop reads it again: not checked)
//@ unsync wsConn.incoming: replaced by the connection loop only while no reader goroutine is running (not checked)
//@ unsync wsConn.chanCtr: accessed with sync/atomic only
//@ -- prohibitions: these calls do not occur in the module; introducing one breaks the stated discipline
//@ -- Contracts on declarations (decided without a code path): the wire format and the constants both peers rely on
//@ static request-wire-shape: jsontag(#request, "Jsonrpc") == "jsonrpc" && jsontag(#request, "ID") == "id,omitempty" && jsontag(#request, "Method") == "method" && jsontag(#request, "Params") == "params" && jsontag(#request, "Meta") == "meta,omitempty" [C09,C04,C01,C02]
//@ static frame-wire-shape: jsontag(#frame, "Jsonrpc") == "jsonrpc" && jsontag(#frame, "ID") == "id,omitempty" && jsontag(#frame, "Method") == "method,omitempty" && jsontag(#frame, "Params") == "params,omitempty" && jsontag(#frame, "Result") == "result,omitempty" && jsontag(#frame, "Error") == "error,omitempty" && jsontag(#frame, "Meta") == "meta,omitempty" [C09,C04,C01,C02]
//@ static client-response-wire-shape: jsontag(#clientResponse, "Jsonrpc") == "jsonrpc" && jsontag(#clientResponse, "Result") == "result" && jsontag(#clientResponse, "ID") == "id" && jsontag(#clientResponse, "Error") == "error,omitempty" [C09,C01,C02,C11]
//@ static error-object-wire-shape: jsontag(#JSONRPCError, "Code") == "code" && jsontag(#JSONRPCError, "Message") == "message" && jsontag(#JSONRPCError, "Meta") == "meta,omitempty" && jsontag(#JSONRPCError, "Data") == "data,omitempty" [C09,C11]
//@ static protocol-error-codes: rpcParseError == -32700 && rpcInvalidRequest == -32600 && rpcMethodNotFound == -32601 && rpcInvalidParams == -32602 [C09,C12]
//@ static user-codes-start-above-the-generic-and-the-panic-code: FirstUserCode > 1 [C11,C13]
//@ static connection-error-code-is-the-registered-one: eTempWSError == -1111111 [C05,C11]
//@ static builtin-method-names: wsCancel == "xrpc.cancel" && chValue == "xrpc.ch.val" && chClose == "xrpc.ch.close" [C12,C06,C07,C08]
//@ static raw-params-is-its-own-type: #RawParams != #json.RawMessage [C01,C09,C12]
//@ -- Core units: the properties overlap (a call that hangs breaks C01, C02 and C03 alike), so for the functions every
//@ -- property of a group rests on, ALL clauses count for every property of the group, whatever their tags say.
//@ core C01 C02 C03 C04 C05 C06 C16: (*wsConn).handleWsConn, (*wsConn).tryReconnect, (*wsConn).tryReconnect$1, (*wsConn).nextMessage, (*wsConn).readFrame, (*wsConn).closeInFlight, (*wsConn).handleResponse, (*wsConn).sendRequest, (*client).setupRequestChan, (*client).setupRequestChan$1, (*wsConn).handleCall, (*wsConn).frameExecutor, (*wsConn).handleFrame
//@ core C07 C08 C09 C15: (*wsConn).handleOutChans, (*wsConn).handleOutChans$1, (*wsConn).handleChanOut, (*wsConn).handleChanMessage, (*wsConn).handleChanClose, (*wsConn).closeChans, (*client).makeOutChan$1, (*client).makeOutChan$1$1, (*client).makeOutChan$1$2
//@ core C09 C12: (*handler).handle, (*handler).handleReader, rpcError, rpcError$1, doCall
//@ core C14: normalizeID
//@ core C01 C02 C04 C05 C11 C16: (*rpcFunc).handleRpcCall, (*client).makeRpcFunc, (*rpcFunc).processResponse, (*rpcFunc).processError, (*client).sendRequest, processFuncOut, (*JSONRPCError).val, (*handler).createError
//@ core C10: doCall
//@ core C04 C09 C10 C13 C15: (*wsConn).handleCall, (*wsConn).handleCall$2, (*wsConn).handleCall$3, (*wsConn).readFrame, (*wsConn).frameExecutor
//@ -- module-wide rules (global ...) of these properties are checked in EVERY function of the module, not only in the
//@ -- units listed above: code added anywhere (a new helper, a new goroutine body, a callback) is held to them too
//@ sweep C14, C02, C03, C04, C05, C06, C07, C08, C13, C15, C16, C01, C09, C12, C10, C11, C19, C20
//@ -- ownership of the connection tables: which function may change which table (module-wide frame conditions)
//@ global at mapdel wsConn.inflight: assert a-call-is-forgotten-only-once-answered: infunc("(*wsConn).handleResponse") [C02,C03,C16,C05]
//@ global at mapset wsConn.inflight: assert calls-are-registered-only-by-the-connection-loop: infunc("(*wsConn).handleWsConn") [C02,C03]
//@ global at store wsConn.inflight: assert in-flight-table-replaced-only-at-start-or-after-failing-all: infunc("(*wsConn).handleWsConn|(*wsConn).closeInFlight") [C02,C03,C05]
//@ global at mapdel wsConn.chanHandlers: assert a-stream-is-forgotten-only-when-closed: infunc("(*wsConn).handleChanClose|(*wsConn).closeChans") [C08,C07]
//@ global at mapset wsConn.chanHandlers: assert streams-are-registered-only-by-the-subscribing-response: infunc("(*wsConn).handleResponse") [C08,C07]
//@ global at mapdel wsConn.handling: assert a-handler-context-is-forgotten-only-when-its-call-is-done: infunc("(*wsConn).handleCall$3") [C06,C15]
//@ global at mapset wsConn.handling: assert handler-contexts-are-registered-only-at-dispatch: infunc("(*wsConn).handleCall") [C06,C15]
//@ global at call (*wsConn).resetReadDeadline: assert read-deadline-extended-only-where-the-peer-was-heard: infunc("(*wsConn).nextMessage|(*wsConn).handleWsConn") [C03]
//@ global-forbid at recv *: assert callbacks-run-under-locks-or-at-shutdown-never-wait: !infunc("(*wsConn).setupPings$5") [C15,C08,C03]
//@ global-forbid at mapdel var:readers: assert a-rendezvous-entry-is-never-removed-while-a-peer-may-wait-on-it: false [C20]
//@ global-forbid at call (*encoding/json.Decoder).UseNumber: assert arguments-decode-with-encoding-jsons-default-number-type: false [C01,C12]
//@ global-forbid at call (*encoding/json.Decoder).DisallowUnknownFields: assert arguments-decode-with-encoding-jsons-default-strictness: false [C01,C12]
//@ global-forbid at call (*lazyWriter).Write: assert only-the-reply-encoder-writes-to-the-connection-writer-so-no-empty-or-partial-message-is-flushed: false [C14,C09]
//@ global-forbid at store net/http.Transport.ResponseHeaderTimeout: assert the-default-http-client-sets-no-deadline-of-its-own-on-calls: false [C06,C03]
//@ global-forbid at store net/http.Client.Timeout: assert the-default-http-client-sets-no-deadline-of-its-own-on-calls: false [C06,C03]
//@ global-forbid at call (*go.uber.org/zap.SugaredLogger).Errorw: assert the-raw-panic-payload-is-only-handed-to-the-formatter: !infunc("doCall$1") [C13]
//@ global-forbid at call (*github.com/gorilla/websocket.Conn).CloseHandler: assert control-frames-are-not-written-through-handler-getters: false [C14,C15]
//@ global-forbid at call (*github.com/gorilla/websocket.Conn).PingHandler: assert control-frames-are-not-written-through-handler-getters: false [C14,C15]
//@ global-forbid at call (*github.com/gorilla/websocket.Conn).PongHandler: assert control-frames-are-not-written-through-handler-getters: false [C14,C15]
//@ global-forbid at store github.com/gorilla/websocket.Dialer.Proxy: assert connections-are-dialled-with-the-default-dialer-and-its-handshake-timeout: false [C03,C05]
//@ global-forbid at store github.com/gorilla/websocket.Dialer.ReadBufferSize: assert connections-are-dialled-with-the-default-dialer-and-its-handshake-timeout: false [C03,C05]
//@ global-forbid at store github.com/gorilla/websocket.Dialer.WriteBufferSize: assert connections-are-dialled-with-the-default-dialer-and-its-handshake-timeout: false [C03,C05]
//@ global-forbid at store github.com/gorilla/websocket.Dialer.HandshakeTimeout: assert connections-are-dialled-with-the-default-dialer-and-its-handshake-timeout: false [C03,C05]
//@ global-forbid at store github.com/gorilla/websocket.Dialer.NetDial: assert connections-are-dialled-with-the-default-dialer-and-its-handshake-timeout: false [C03,C05]
//@ global-forbid at store github.com/gorilla/websocket.Dialer.NetDialContext: assert connections-are-dialled-with-the-default-dialer-and-its-handshake-timeout: false [C03,C05]
//@ global-forbid at call errors.Is: assert the-raw-panic-payloads-methods-run-only-under-fmts-own-guard: !infunc("doCall$1") [C13,C10]
//@ global-forbid at call errors.As: assert the-raw-panic-payloads-methods-run-only-under-fmts-own-guard: !infunc("doCall$1") [C13,C10]
//@ global-forbid at call errors.Unwrap: assert the-raw-panic-payloads-methods-run-only-under-fmts-own-guard: !infunc("doCall$1") [C13,C10]
//@ global-forbid at lock wsConn.writeLk: assert the-server-releases-the-socket-without-queueing-behind-writers: !infunc("(*RPCServer).handleWS") [C15]
//@ global at call (reflect.Value).Call: assert user-code-runs-only-under-the-panic-guard: infunc("doCall|auth.PermissionedProxy$1") [C13,C04]
//@ global-forbid at call (*github.com/gorilla/websocket.Conn).WriteControl: assert control-frames-also-under-writeLk: heldclass("wsConn.writeLk") [C14,C15,C09]
//@ global-forbid at call (*github.com/gorilla/websocket.Conn).SetWriteDeadline: assert no-sticky-write-deadline-shared-by-all-writers: false [C14,C09,C03,C15]
//@ global-forbid at call sync/atomic.StoreUint64: assert channel-id-counter-only-grows: false [C07,C08]
//@ global-forbid at call sync/atomic.StoreInt64: assert request-id-counter-only-grows: false [C02]
//@ chaninv wsConn.readError: read-errors-are-errors: $val != nil [C03]
//@ ghostmap failedCall(U) Bool
//@ ghostmap regPair(U) Bool
//@ specfn pairOf(U, Int) U
//@ ghostmap closedSink(Int) Bool
//@ ghostmap listlen(U) Int
//@ ghostmap cancelledCall(U) Bool
//@ -- every write-side call on the websocket must happen with the connection's write lock held (gorilla allows one concurrent writer)
//@ global at call (*github.com/gorilla/websocket.Conn).WriteJSON: assert write-under-writeLk: heldclass("wsConn.writeLk") [C14]
//@ global at call (*github.com/gorilla/websocket.Conn).WriteMessage: assert write-under-writeLk: heldclass("wsConn.writeLk") [C14]
//@ global at call (*github.com/gorilla/websocket.Conn).NextWriter: assert write-under-writeLk: heldclass("wsConn.writeLk") [C14]

//@ alias (reqestHandler).handle = (*handler).handle
//@ -- function types: what every value of the type guarantees (each concrete function of that type is verified against it)
//@ functype makeChanSink
//@   ensures result1 != nil
//@ -- ------------------------------------------------------------------ websocket.go
//@ func normalizeID
//@   modifies nothing
//@   ensures idok: result1 == nil ==> idok(result0) [C10,C02,C09]
//@   ensures err-or-id: result1 != nil ==> result0 == nil [C09]
//@   ensures present-id-stays-present: id != nil && result1 == nil ==> result0 != nil [C02,C04]
//@   ensures accepted-wire-ids-unchanged: (typeof(id) == #string || typeof(id) == #float64) ==> result1 == nil && result0 == id [C02,C09]
//@   nopanic [C10]

//@ func (*wsConn).nextWriter
//@   requires cb != nil
//@   at dyncall cb: assert writer-used-under-lock: heldclass("wsConn.writeLk") [C14]
//@   at call (io.WriteCloser).Close: assert message-finished-under-lock: heldclass("wsConn.writeLk") [C14]
//@   ensures callback-exactly-once: calls(cb) == 1 [C15,C14,C09]
//@   ensures one-message-per-writer: calls(NextWriter) == 1 && calls(Close) <= 1 [C14]

//@ func (*wsConn).sendRequest
//@   ensures one-frame: calls(WriteJSON) == 1 [C14,C04]
//@   ghost werr : U = nil
//@   at ret WriteJSON: set werr = $result0
//@   ensures write-failure-reported-to-the-caller: result == werr [C03,C02]

//@ func (*wsConn).setupPings$4

//@ func (*wsConn).setupPings

//@ func (*wsConn).resetReadDeadline
//@   ensures deadline-renewed-whenever-a-timeout-is-configured: c.timeout > 0 ==> calls(SetReadDeadline) == 1 [C03,C08]

//@ func (*wsConn).handleWsConn
//@   initphase
//@   requires sane-backoff-config: 0 <= c.reconnectBackoff.minDelay && c.reconnectBackoff.minDelay <= c.reconnectBackoff.maxDelay [C05]
//@   ghost linkDown : Bool = false
//@   ghost branch : Int = 0
//@   ghost reconnectFailed : Bool = false
//@   ghost registered : Bool = false
//@   at store wsConn.incomingErr: set linkDown = $val != nil
//@   at recv ctx.Done(): set branch = 1
//@   at recv c.stop: set branch = 2
//@   at recv c.incoming: set branch = 3
//@   at recv c.incoming: set reconnectFailed = false
//@   at recv c.readError: set branch = 4
//@   at recv c.readError: set reconnectFailed = false
//@   at recv timeoutCh: set branch = 5
//@   at recv c.requests: set branch = 6
//@   at recv c.pongs: set branch = 7
//@   at ret tryReconnect: set reconnectFailed = !$result0
//@   at call tryReconnect: assert link-flagged-down-before-reconnect: linkDown || (defined(err) && err != nil) [C03]
//@   ghost completed : Bool = false
//@   at recv c.requests: set completed = false
//@   at send req.ready: set completed = true
//@   loop 1 invariant dequeued-request-never-dropped: branch == 6 ==> registered || completed [C03,C04,C02]
//@   at recv c.requests: set registered = false
//@   at mapset wsConn.inflight: set registered = true
//@   at mapset wsConn.inflight: assert registers-this-request-under-its-id: $key == req.req.ID && $val == req && req.req.ID != nil [C02,C03]
//@   at mapset wsConn.inflight: assert not-registered-on-a-dead-link: !hasErr && heldclass("wsConn.writeLk") [C03]
//@   ghost flagSeen : Bool = false
//@   at call (*sync.Mutex).Unlock: set flagSeen = (fieldof($0) == "wsConn.errLk" && c.incomingErr != nil) || (fieldof($0) != "wsConn.errLk" && flagSeen)
//@   at mapset wsConn.inflight: assert the-fail-fast-test-is-the-link-flag-itself-whatever-the-fault: !flagSeen [C03,C05]
//@   at call sendRequest: assert registered-before-written: req.req.ID != nil ==> registered [C02,C03]
//@   at call sendRequest: assert sends-the-dequeued-request: $1 == req.req && calls(sendRequest) >= 0 [C02,C04]
//@   at send req.ready: assert local-completion-shape: (req.req.ID != nil ==> $val.Error != nil && $val.Error.Code == -1111111 && $val.ID == req.req.ID && !registered && defined(hasErr) && hasErr) && (req.req.ID == nil ==> $val.ID == nil && $val.Result == nil && (($val.Error != nil) == (sendErr != nil))) [C03,C04]
//@   ghost sendErr : U = nil
//@   at ret sendRequest: set sendErr = $result0
//@   ensures keepalive-stopped-when-the-loop-ends: calls(stopPings) >= 1 [C15]
//@   at call (*wsConn).resetReadDeadline: assert deadline-extended-only-by-a-pong: action == "pong" [C03]
//@   at recv timeoutTimer.C: assert the-inactivity-timer-is-drained-without-waiting: !$blocking [C05,C03]
//@   loop 1 invariant reader-channel: c.incoming != nil && chancap(c.incoming) == 0 [C03,C10]
//@   ensures exits-only-for-a-cause: branch == 1 || branch == 2 || ((branch == 3 || branch == 4) && reconnectFailed) || (branch == 3 && err == nil) || (branch == 5 && c.connFactory == nil) [C03,C05]
//@   at store wsConn.readError: assert read-failure-report-never-blocks-a-dead-loop: chancap($val) >= 1 [C15,C03]
//@   at store wsConn.incoming: assert reader-channel-unbuffered: chancap($val) == 0 && $val != nil && !closed($val) [C03,C10]
//@   at call context.WithCancel: assert connection-context-derives-from-caller: $0 == ctx [C15]
//@   at ret context.WithCancel: let cctx = $result0
//@   at go frameExecutor: assert executor-runs-under-connection-context: $1 == cctx [C15]
//@   at go readFrame: assert reader-runs-under-connection-context: $1 == cctx [C15]
//@   at call tryReconnect: assert reconnect-bound-to-connection-context: $1 == cctx [C15,C18]
//@   at makechan: assert no-unbuffered-error-channel: true [C15]
//@   ensures exit-fails-calls-and-closes-channels: calls(closeInFlight) >= 1 && calls(closeChans) >= 1 && calls(cancel) >= 1 [C03,C08,C15]

//@ func (*wsConn).tryReconnect
//@   requires sane-backoff-config: 0 <= c.reconnectBackoff.minDelay && c.reconnectBackoff.minDelay <= c.reconnectBackoff.maxDelay [C05]
//@   modifies wsConn.incoming, wsConn.inflight, wsConn.handling, wsConn.chanHandlers
//@   ensures nothing-resent: calls(sendRequest) == 0 [C04]
//@   ensures no-factory-no-redial: c.connFactory == nil ==> !result && calls(closeInFlight) == 0 && calls(closeChans) == 0 && !spawned() [C05,C03]
//@   ensures redial-fails-calls-first: c.connFactory != nil ==> result && calls(closeInFlight) == 1 && calls(closeChans) == 1 && spawned() [C03,C08,C05]
//@   at go tryReconnect$1: assert tables-wiped-before-redial: calls(closeInFlight) == 1 && calls(closeChans) == 1 [C03,C08]
//@   at store wsConn.incoming: assert fresh-unbuffered-channel: !closed($val) && $val != nil && chancap($val) == 0 [C03,C10]
//@   ensures reader-channel-fresh: result ==> c.incoming != nil && chancap(c.incoming) == 0 && !closed(c.incoming) [C03,C10]

//@ func (*wsConn).tryReconnect$1
//@   requires sane-backoff: 0 <= c.reconnectBackoff.minDelay && c.reconnectBackoff.minDelay <= c.reconnectBackoff.maxDelay && c.connFactory != nil [C05]
//@   requires fresh-reader-channel: c.incoming != nil && !closed(c.incoming) [C03,C10]
//@   ghost slept : Bool = false
//@   ghost sleptFor : Int = 0
//@   ghost lastNext : Int = -1
//@   at ret next: set lastNext = $result0
//@   at call next: assert backoff-from-attempt-count: $1 == attempts && $1 >= 0 [C05]
//@   at call time.Sleep: assert sleeps-for-the-backoff-delay: $0 == lastNext && $0 >= c.reconnectBackoff.minDelay [C05]
//@   at call time.Sleep: set slept = true
//@   at call dyn:c.connFactory: assert every-dial-preceded-by-backoff-sleep: slept [C05]
//@   at ret dyn:c.connFactory: set slept = false
//@   at ret dyn:c.connFactory: assume $result1 == nil ==> $result0 != nil
//@   loop 1 invariant attempts-count: attempts >= 0 && !slept [C05]
//@   at store wsConn.incomingErr: assert flag-cleared-only-with-new-connection: $val == nil && conn != nil && heldclass("wsConn.writeLk") && heldclass("wsConn.errLk") [C03,C05]
//@   at store wsConn.conn: assert swaps-in-the-dialled-connection: $val == conn && conn != nil [C05,C14]
//@   ensures nothing-resent: calls(sendRequest) == 0 [C04]
//@   ghost ctxErr : U = nil
//@   ghost ctxDone : Bool = false
//@   at ret (context.Context).Err: set ctxErr = $result0
//@   at recv ctx.Done(): set ctxDone = true
//@   ensures gives-up-only-when-the-client-context-is-done: calls(nextMessage) == 0 && spawnedCount(nextMessage) == 0 ==> ctxErr != nil || ctxDone [C05,C03]
//@   at go nextMessage: assert reader-restarted-after-swap: calls(setupPings) == 1 && nolocks() [C05,C03]

//@ func (*wsConn).handleOutChans
//@   safety
//@   ghost pendingAnnounce : Bool = false
//@   loop 1 invariant parallel-tables: internal == 2 && len(cases) == internal + len(caseToID) && !pendingAnnounce [C07,C08]
//@   loop 1 invariant ids-paired-with-their-channels: forall j :: internal <= j && j < len(cases) ==> regPair(pairOf(cases[j].Chan, caseToID[j - internal])) [C07,C08]
//@   at ret (reflect.Value).Interface: assume istype($result0, #outChanReg)
//@   at call reflect.Select: assert selects-over-all-registered-channels: $0 == cases [C07]
//@   at ret reflect.Select: let selCh = cases[$result0].Chan
//@   at call (reflect.Value).Interface: set pendingAnnounce = true
//@   at call nextWriter: assert channel-announced-in-the-iteration-it-joins: pendingAnnounce && cases[len(cases) - 1].Chan == registration.ch && caseToID[len(caseToID) - 1] == registration.chID && cases[len(cases) - 1].Dir == 2 [C07]
//@   at call nextWriter: update regPair(pairOf(registration.ch, registration.chID)) := true
//@   at call nextWriter: set pendingAnnounce = false
//@   at call reflect.ValueOf: assert value-and-close-tagged-with-own-channel-id: (calls(Select) >= 1 && istype($0, #uint64)) ==> regPair(pairOf(selCh, unbox($0, #uint64))) [C07,C08]
//@   at call sendRequest: assert forwarded-as-notification: $1.ID == nil && $1.Params == rp && $1.Method == ite(ok, "xrpc.ch.val", "xrpc.ch.close") [C07,C08]
//@   at call encoding/json.Marshal: assert forwards-the-received-value: true [C07]
//@   ghost sendFailed : Bool = false
//@   at ret reflect.Select: set sendFailed = false
//@   at ret sendRequest: set sendFailed = $result0 != nil && ok
//@   ensures forwarder-stops-only-when-connection-ends-or-a-value-write-fails: ((chosen == 0 || chosen == 1) && !ok) || sendFailed [C07,C08,C15]

//@ func (*wsConn).closeInFlight
//@   at lock wsConn.inflightLk: let tbl = c.inflight
//@   at lock wsConn.handlingLk: let htbl = c.handling
//@   at send req.ready: assert fails-with-temporary-error: $val.Error != nil && $val.Error.Code == -1111111 && $val.ID == id && $val.Result == nil && $chan == tbl[id].ready && present(tbl, id) [C03,C04]
//@   at send req.ready: update failedCall($val.ID) := true
//@   loop 1 invariant every-visited-call-failed: c.inflight == tbl && (forall k: U :: visited(1, k) ==> failedCall(k)) [C03]
//@   at store wsConn.inflight: assert all-in-flight-calls-failed-before-reset: forall k: U :: present(tbl, k) ==> failedCall(k) [C03,C05]
//@   at store wsConn.inflight: assert table-reset-to-empty: forall k: U :: !present($val, k) [C03,C05]
//@   at rangenext wsConn.handling: let hk = $key
//@   at dyncall cancel: assert cancels-registered-handler: $callee == htbl[hk] && present(htbl, hk) [C15,C06]
//@   at dyncall cancel: update cancelledCall(hk) := true
//@   loop 2 invariant every-visited-handler-cancelled: c.handling == htbl && (forall k: U :: visited(2, k) ==> cancelledCall(k)) [C15]
//@   at store wsConn.handling: assert all-handlers-cancelled-before-reset: forall k: U :: present(htbl, k) ==> cancelledCall(k) [C15]
//@   ensures nothing-resent: calls(sendRequest) == 0 [C04]

//@ func (*wsConn).closeChans
//@   ghost deletions : Int = 0
//@   at rangenext wsConn.chanHandlers: set deletions = 0
//@   at mapdel wsConn.chanHandlers: assert removes-the-sink-being-closed: $key == chid && heldclass("chanHandler.lk") [C08]
//@   at mapdel wsConn.chanHandlers: inc deletions
//@   at dyncall hnd.cb: assert each-sink-closed-once-after-removal: !$1 && deletions == 1 && $callee == hnd.cb && heldclass("chanHandler.lk") && !heldclass("wsConn.chanHandlersLk") [C08]
//@   at dyncall hnd.cb: update closedSink(chid) := true
//@   loop 1 invariant every-visited-sink-closed: forall k :: visited(1, k) ==> closedSink(k) [C08]
//@   ensures nothing-resent: calls(sendRequest) == 0 [C04]
//@   loop 1 invariant sinks-ok-while-held: sinksOK(c) [C10,C14,C08]

//@ func (*wsConn).handleCtxAsync
//@   at call reflect.ValueOf: assert cancel-names-the-subscribing-call: $0 == id [C06]
//@   at call sendRequest: assert cancel-message-shape: $1.Method == "xrpc.cancel" && $1.ID == nil && $1.Params == rp && calls(Done) == 1 [C06]
//@   ensures at-most-one-cancel: calls(sendRequest) <= 1 [C06]
//@   ghost merr : U = nil
//@   at ret encoding/json.Marshal: set merr = $result1
//@   ensures cancel-sent-once-the-context-ends: merr == nil ==> calls(sendRequest) == 1 [C06]

//@ func (*wsConn).handleCall$3
//@   at dyncall cancel: assert released-only-when-not-kept: !keepctx [C06]
//@   at mapdel wsConn.handling: assert forgets-only-own-entry: $key == frame.ID && !keepctx [C06]
//@   ensures released-when-not-kept: !keepctx ==> calls(cancel) == 1 [C06,C15]

//@ func (*wsConn).handleCall$2
//@   at dyncall cancel: assert released-only-when-not-kept: !keepCtx [C06]
//@   ensures released-when-not-kept: !keepCtx ==> calls(cancel) == 1 [C06,C15]

//@ func (*lazyWriter).Write
//@   at call (io.Writer).Write: assert hands-the-callers-bytes-to-the-connection-writer: $1 == p [C14,C09]
//@   ensures every-write-reaches-the-connection-writer: calls(Write) == 1 [C14,C09,C15]

//@ func (*lazyWriter).Write$1$1

//@ func (*wsConn).cancelCtx
//@   modifies nothing
//@   nopanic [C10]
//@   ghost nid : U = nil
//@   at ret normalizeID: set nid = $result0
//@   at call encoding/json.Unmarshal: assert decodes-first-param: calls(Unmarshal) == 1 ==> $0 == params[0].data [C06]
//@   at call normalizeID: assert normalises-the-decoded-id: $0 == id [C06,C10]
//@   at maplookup wsConn.handling: assert looks-up-the-named-call: $key == nid [C06]
//@   at maplookup wsConn.handling: let centry = $val
//@   at dyncall cf: assert cancels-only-the-named-call: $callee == centry && calls(cf) == 0 [C06]

//@ func (*wsConn).handleChanMessage
//@   nopanic [C10]
//@   at maplookup wsConn.chanHandlers: assert dispatches-by-the-frames-channel-id: $key == chid [C07]
//@   at maplookup wsConn.chanHandlers: let sink = $val
//@   at maplookup wsConn.chanHandlers: let found = $ok
//@   at call encoding/json.Unmarshal: assert channel-id-is-first-param: calls(Unmarshal) == 1 ==> $0 == params[0].data [C07]
//@   at unlock wsConn.chanHandlersLk: assert sink-locked-before-table-released: found ==> heldclass("chanHandler.lk") [C07,C08]
//@   at dyncall hnd.cb: assert value-goes-to-that-subscriptions-sink-only: $callee == sink.cb && $0 == params[1].data && $1 && heldclass("chanHandler.lk") && !heldclass("wsConn.chanHandlersLk") [C07,C08]
//@   ensures at-most-one-delivery: calls(cb) <= 1 [C07]

//@ func (*wsConn).handleChanClose
//@   nopanic [C10]
//@   ghost deletions : Int = 0
//@   at maplookup wsConn.chanHandlers: assert looks-up-the-closed-channel: $key == chid [C08]
//@   at maplookup wsConn.chanHandlers: let sink = $val
//@   at mapdel wsConn.chanHandlers: assert removes-exactly-the-closed-subscription: $key == chid && heldclass("chanHandler.lk") [C08]
//@   at mapdel wsConn.chanHandlers: inc deletions
//@   at dyncall hnd.cb: assert close-callback-once-after-removal: $callee == sink.cb && !$1 && deletions == 1 && heldclass("chanHandler.lk") && !heldclass("wsConn.chanHandlersLk") [C08]
//@   ensures at-most-one-close: calls(cb) <= 1 [C08]

//@ func (*wsConn).handleResponse
//@   requires idok(frame.ID)
//@   nopanic [C10]
//@   ghost deliveries : Int = 0
//@   at maplookup wsConn.inflight: assert looks-up-the-response-id: $key == frame.ID [C02]
//@   at maplookup wsConn.inflight: let entry = $val
//@   at maplookup wsConn.inflight: let found = $ok
//@   at send req.ready: assert delivers-to-that-entrys-mailbox: found && $chan == entry.ready [C02]
//@   at send req.ready: assert delivers-the-frame-unchanged: $val.ID == frame.ID && $val.Result == frame.Result && $val.Error == frame.Error && $val.Jsonrpc == frame.Jsonrpc [C02,C01,C11]
//@   at send req.ready: inc deliveries
//@   ghost deletions : Int = 0
//@   at mapdel wsConn.inflight: assert removes-exactly-the-answered-call: $key == frame.ID && deliveries == 1 [C02,C03]
//@   at mapdel wsConn.inflight: inc deletions
//@   at mapset wsConn.chanHandlers: assert sink-registered-before-call-completes: deliveries == 0 && $val != nil && $val.cb != nil [C07,C08]
//@   at go handleCtxAsync: assert cancel-watcher-carries-request-id: $2 == frame.ID && calls(retCh) == 1 [C06]
//@   ensures at-most-one-delivery: deliveries <= 1 && (deliveries == 1) == (deletions == 1) [C02,C03]

//@ func (*wsConn).handleCall
//@   requires idok(frame.ID)
//@   nopanic [C10]
//@   at go handle: assert writer-iff-id: (frame.ID != nil) == isfn($3, "(*wsConn).nextWriter") && (frame.ID == nil) == isfn($3, "(*wsConn).handleCall$1") [C09,C04]
//@   at call context.WithCancel: assert handler-context-derives-from-connection: $0 == ctx [C06,C15]
//@   at ret context.WithCancel: let hctx = $result0
//@   at ret context.WithCancel: let hcancel = $result1
//@   at mapset wsConn.handling: assert registers-own-cancel-under-own-id: $key == frame.ID && $val == hcancel [C06]
//@   at go handle: assert handler-runs-with-derived-context: $1 == hctx && calls(WithCancel) == 1 [C06,C15]
//@   at go handle: assert done-matches-id: (frame.ID != nil) == isfn($5, "(*wsConn).handleCall$3") && (frame.ID == nil) == isfn($5, "(*wsConn).handleCall$2") [C06]
//@   ensures one-handler-goroutine-per-call: c.handler != nil ==> spawnedCount(handle) == 1 [C04,C16]
//@   at go handle: assert context-registered-before-start: frame.ID != nil ==> calls(Lock) == 1 && calls(Unlock) == 1 [C06]
//@   at go handle: assert request-copied-from-frame: $2.ID == frame.ID && $2.Method == frame.Method && $2.Params == frame.Params && $2.Jsonrpc == frame.Jsonrpc [C09,C01,C02]

//@ func (*wsConn).handleOutChans$1
//@   requires w != nil
//@   at call (*encoding/json.Encoder).Encode: assert channel-reply-shape: resp.Jsonrpc == "2.0" && resp.ID == registration.reqID && resp.Error == nil && resp.Result == box(registration.chID) [C09,C07]
//@   ensures one-value: calls(Encode) == 1 [C09]

//@ func (*wsConn).handleFrame
//@   requires idok(frame.ID)
//@   nopanic [C10]
//@   at call handleCall: assert call-inherits-connection-context: $1 == ctx [C15,C06]
//@   ensures exactly-one-dispatch: calls(handleResponse) + calls(cancelCtx) + calls(handleChanMessage) + calls(handleChanClose) + calls(handleCall) == 1 [C04,C02]
//@   ensures dispatch-by-method: (frame.Method == "" ==> calls(handleResponse) == 1) && (frame.Method == "xrpc.cancel" ==> calls(cancelCtx) == 1) && (frame.Method == "xrpc.ch.val" ==> calls(handleChanMessage) == 1) && (frame.Method == "xrpc.ch.close" ==> calls(handleChanClose) == 1) [C04,C02,C06,C07]

//@ func (*wsConn).frameExecutor
//@   requires ctx != nil
//@   nopanic [C10]
//@   ghost handled : Int = 0
//@   at recv c.frameExecQueue: set handled = 0
//@   at recv c.frameExecQueue: let buf0 = $val
//@   at call encoding/json.Unmarshal: assert decodes-the-dequeued-frame: $0 == buf0 [C02,C04]
//@   at call encoding/json.Unmarshal: assert decodes-into-a-zeroed-frame: frame.ID == nil && frame.Method == "" && len(frame.Params) == 0 && len(frame.Result) == 0 && cap(frame.Result) == 0 && cap(frame.Params) == 0 && frame.Error == nil && frame.Meta == nil [C04,C02,C09]
//@   at call handleFrame: assert each-frame-dispatched-at-most-once: handled == 0 && idok($2.ID) [C02,C04,C10]
//@   ghost uerr : U = nil
//@   ghost nerr : U = nil
//@   at ret encoding/json.Unmarshal: set uerr = $result0
//@   at ret normalizeID: set nerr = $result1
//@   at call handleFrame: assert only-wellformed-frames-dispatched: uerr == nil && nerr == nil && calls(Unmarshal) >= 1 && calls(normalizeID) >= 1 [C10,C12,C04]
//@   at call handleFrame: assert handlers-inherit-connection-context: $1 == ctx [C15,C06]
//@   at recv ctx.Done(): assert stops-with-connection-context: true [C15]
//@   at call handleFrame: inc handled

//@ func (*wsConn).readFrame
//@   requires reader-owns-open-channel: c.incoming != nil && !closed(c.incoming) [C10,C03,C08]
//@   ghost reportedErr : Bool = false
//@   at send c.readError: set reportedErr = true
//@   at send c.frameExecQueue: assert enqueues-the-frame-just-read: $val == buf && !reportedErr [C02,C15]
//@   ensures reader-restarted-unless-read-failed: reportedErr || spawnedCount(nextMessage) == 1 [C15,C03]
//@   ensures one-outcome: reportedErr != (calls(nextMessage) >= 0 && spawnedCount(nextMessage) == 1) [C15]
//@   nopanic [C10]

//@ func (*wsConn).nextMessage
//@   requires reader-owns-open-channel: c.incoming != nil && !closed(c.incoming) [C10,C03,C08]
//@   at call (*github.com/gorilla/websocket.Conn).NextReader: assert read-deadline-armed-before-every-read: calls(resetReadDeadline) == 1 [C03]
//@   at store wsConn.incomingErr: assert failure-flags-link-before-closing: $val != nil && !closed(c.incoming) [C03]
//@   ghost flagged : Bool = false
//@   at store wsConn.incomingErr: set flagged = true
//@   at close c.incoming: assert closes-only-after-recording-the-cause: flagged [C03,C05]
//@   ensures every-failure-closes-the-channel: (flagged ==> closed(c.incoming)) && (!flagged ==> !closed(c.incoming)) [C03,C05]
//@   ensures failed-read-flags-and-closes-once: calls(NextReader) == 1 [C03]
//@   nopanic [C10]

//@ func (*client).makeOutChan$1$2
//@   requires sink-owns-open-channel: incoming != nil && !closed(incoming) [C10,C08]
//@   requires valid-result-index: 0 <= valOut && valOut < NumOut(ftyp) [C10]
//@   at close incoming: assert closes-only-at-end-of-stream: !ok [C08]
//@   at recv *: assert end-of-stream-never-waits: ok [C15,C08] -- closeChans runs this callback under chanHandlersLk at shutdown
//@   at send incoming: assert forwards-the-decoded-value-while-live: ok && $val == val && calls(Unmarshal) == 1 && calls(Err) == 1 [C07,C08]
//@   ensures end-of-stream-closes-the-buffer-input: !ok ==> closed(incoming) && calls(Unmarshal) == 0 [C08]
//@   nopanic [C10]

//@ -- ------------------------------------------------------------------ handler.go / server.go
//@ func (*handler).handleReader
//@   requires handler-tables-wellformed: rpcError != nil && handlersOK(s) [C10,C09,C01,C12]
//@   ghost sizeRejected : Bool = false
//@   at ret ReadFrom: let nread = $result0
//@   at ret ReadFrom: let readErr = $result1
//@   at call xerrors.Errorf: set sizeRejected = sizeRejected || $0 == "request bigger than maximum %d allowed"
//@   at call handle: assert no-handler-when-oversize: nread <= s.maxRequestSize [C10]
//@   loop 1 invariant not-size-rejected: !sizeRejected [C10]
//@   ensures reject-exactly-above-limit: readErr == nil ==> (sizeRejected == (nread > s.maxRequestSize)) [C10]
//@   ensures oversize-never-handled: sizeRejected ==> calls(handle) == 0 && calls(rpcError) == 1 [C10]
//@   ghost ost : Int = 0
//@   ghost rpcCode : Int = 0
//@   at call (io.Writer).Write: assert value-token-nonempty: tokOf($1) == 0 ==> len($1) > 0 [C09]
//@   at call (io.Writer).Write: set ost = step(ost, tokOf($1))
//@   at ret dyn:rpcError: set ost = ite(isfn($0, "(*handler).handleReader$1"), ite(ost == 0, 1, 9), ost)
//@   at ret handle: set ost = ite(isfn($3, "(*handler).handleReader$1"), ite(ost == 0, ite(nondetBool(), 1, 0), 9), ost)
//@   at call dyn:rpcError: set rpcCode = $2
//@   at call dyn:rpcError: assert protocol-error-code: $2 == -32700 || $2 == -32600 [C09]
//@   ghost lastMsg : U = nil
//@   at call xerrors.New: set lastMsg = $0
//@   at call xerrors.Errorf: set lastMsg = $0
//@   at call dyn:rpcError: assert codes-match-causes: (lastMsg == "Invalid request" ==> $2 == -32600) && (lastMsg == "Parse error" ==> $2 == -32700) && ($2 == -32600 ==> trimmedLen == 0 || (defined(reqs) && len(reqs) == 0)) [C09]
//@   ghost trimmedLen : Int = -1
//@   at ret bytes.TrimSpace: set trimmedLen = len($result0)
//@   at call handle: assert id-normalised-before-dispatch: idok($2.ID) [C09,C02]
//@   at call handle: assert handler-gets-the-request-context: $1 == ctx [C06]
//@   at call handle: assert batch-elements-buffered: (ost == 0) == isfn($3, "(*handler).handleReader$1") [C09]
//@   loop 1 invariant array-open: (ost == 2 || ost == 3) && wroteElem == (ost == 3) [C09]
//@   loop 1 invariant every-element-dispatched-or-rejected: calls(rpcError) + calls(handle) == rangeindex + 1 [C09]
//@   ensures wellformed-output: ost == 0 || ost == 1 || ost == 5 [C09]
//@   ensures every-body-is-answered-or-dispatched: calls(rpcError) + calls(handle) >= 1 [C09,C10]
//@   at call io.LimitReader: assert reads-exactly-one-byte-beyond-the-limit: $1 == s.maxRequestSize + 1 && $0 == r [C10]
//@   at call (*bytes.Buffer).ReadFrom: assert whole-body-buffered-before-anything-else: calls(rpcError) == 0 && calls(handle) == 0 [C10]
//@   nopanic [C10]

//@ func (*handler).handle
//@   modifies nothing
//@   requires rpcError != nil && w != nil && done != nil && handlersOK(s)
//@   loop 1 invariant param-index: i >= 0 [C10,C01,C12]
//@   loop 1 invariant params-decoded-positionally: len(callParams) == 1 + handler.hasCtx + handler.nParams && callParams[0] == handler.receiver && (forall k :: 0 <= k && k < i ==> (!present(s.paramDecoders, handler.paramReceivers[k]) ==> callParams[k + 1 + handler.hasCtx] == valueOf(ifaceOf(elemOf(newOf(handler.paramReceivers[k])))))) [C01,C12]
//@   at call bytes.NewReader: assert decodes-the-ith-positional-param: $0 == ps[i].data [C01,C12]
//@   at call reflect.New: assert decodes-into-the-declared-parameter-type: $0 == handler.paramReceivers[i] [C01,C12]
//@   at call (*encoding/json.Decoder).Decode: assert decodes-into-the-fresh-value: $1 == ifaceOf(newOf(handler.paramReceivers[i])) [C01,C12]
//@   at call doCall: assert call-arguments-positional: len($2) == 1 + handler.hasCtx + handler.nParams && $2[0] == handler.receiver && $2 == callParams [C01]
//@   at call reflect.ValueOf: assert raw-params-passed-verbatim: boxedas($0, #RawParams) ==> handler.hasRawParams && unbox($0, #RawParams) == old(req.Params) [C01]
//@   at call withLazyWriter: assert result-is-the-handlers-value-output: resp.Error == nil && handler.valOut != -1 ==> resp.Result == ifaceOf(callResult[handler.valOut]) [C01,C11]
//@   ghost callErr : U = nil
//@   at ret doCall: set callErr = $result1
//@   ensures done-always-runs: calls(done) >= 1 [C13,C06,C15]
//@   ghost lastKeep : Bool = false
//@   at dyncall done: set lastKeep = $0
//@   ensures streams-keep-their-context: defined(outCh) ==> lastKeep == outCh [C06,C15]
//@   ensures a-stream-is-any-channel-result: defined(outCh) ==> outCh == (handler.valOut != -1 && KindOf(OutT(rtypeOf(handler.handlerFunc), handler.valOut)) == 18) [C06,C15,C07]
//@   ensures unresolved-calls-release-context: !resolvable(s, old(req.Method)) ==> !lastKeep [C06]
//@   ghost released : Bool = false
//@   at dyncall done: set released = released || !$0
//@   ensures arity-rejected-calls-release-context: rpcCode == -32602 ==> released [C06,C15]
//@   ghost rpcCode : Int = 0
//@   ghost chanDeferred : Bool = false
//@   at call dyn:rpcError: set rpcCode = $2
//@   at ret dyn:chOut: set chanDeferred = $result0 == nil
//@   at call dyn:rpcError: assert error-reply-names-request: $1 != nil && $1.ID == old(req.ID) && $0 == w [C09,C02]
//@   at call withLazyWriter: assert reply-echoes-id-and-version: resp.ID == old(req.ID) && resp.Jsonrpc == "2.0" && $0 == w [C09,C02]
//@   at call withLazyWriter: assert reply-only-for-id-bearing: old(req.ID) != nil [C09,C04]
//@   at call withLazyWriter: assert error-reply-carries-no-result: resp.Error != nil ==> resp.Result == nil [C11,C09]
//@   at store JSONRPCError.Code: assert internal-failures-use-the-generic-code: $val == 1 [C11]
//@   at call createError: assert error-built-from-the-handlers-error-output: calls(doCall) == 1 && handler.errOut != -1 [C11]
//@   at call doCall: assert dispatches-selected-handler: $1 == selected(s, old(req.Method)).handlerFunc && $0 == old(req.Method) && resolvable(s, old(req.Method)) [C12,C01,C16]
//@   at call doCall: assert arity-checked-before-call: handler.hasRawParams || (defined(ps) && len(ps) == handler.nParams) [C12,C09]
//@   ghost paramsDecoded : Bool = false
//@   at call encoding/json.Unmarshal: assert decodes-the-requests-params: $0 == old(req.Params) [C12,C01]
//@   at ret encoding/json.Unmarshal: set paramsDecoded = true
//@   at call doCall: assert counted-params-are-the-requests-params: handler.hasRawParams || len(old(req.Params)) == 0 || paramsDecoded [C12,C09,C01]
//@   at call doCall: assert nothing-rejected-before-call: calls(rpcError) == 0 && calls(doCall) == 0 [C12,C04,C09]
//@   ensures at-most-one-reply: calls(rpcError) + calls(withLazyWriter) <= 1 [C09,C02]
//@   ensures id-bearing-gets-exactly-one-reply: old(req.ID) != nil && !chanDeferred ==> calls(rpcError) + calls(withLazyWriter) == 1 [C09,C02]
//@   ensures channel-reply-left-to-forwarder: chanDeferred ==> calls(rpcError) + calls(withLazyWriter) == 0 [C09,C07]
//@   ensures unknown-method-is-32601-and-not-run: !resolvable(s, old(req.Method)) ==> rpcCode == -32601 && calls(rpcError) == 1 && calls(doCall) == 0 [C09,C12]
//@   ensures protocol-errors-never-run-handler: (rpcCode == -32601 || rpcCode == -32602 || rpcCode == -32700) ==> calls(doCall) == 0 [C09,C12]
//@   ghost lastMsg : U = nil
//@   at call fmt.Errorf: set lastMsg = $0
//@   at call xerrors.Errorf: set lastMsg = $0
//@   at call dyn:rpcError: assert codes-match-causes: (lastMsg == "wrong param count (method '%s'): %d != %d" ==> $2 == -32602) && (lastMsg == "method '%s' not found" ==> $2 == -32601) && ($2 == -32602 ==> len(ps) != handler.nParams) && ($2 == -32601 ==> !resolvable(s, old(req.Method)) || chOut == nil) && ($2 == 0 ==> callErr != nil) [C09,C12]
//@   loop 1 invariant arity-checked-before-decoding: len(ps) == handler.nParams [C09,C12]
//@   loop 1 invariant nothing-replied-or-run-yet: rpcCode == 0 && calls(rpcError) == 0 && calls(doCall) == 0 && calls(withLazyWriter) == 0 && callErr == nil && !chanDeferred && (len(old(req.Params)) == 0 || paramsDecoded) [C09,C12,C13,C04]
//@   ensures panic-gets-one-error-reply: callErr != nil ==> calls(rpcError) == 1 && calls(withLazyWriter) == 0 [C13,C09]
//@   nopanic [C10]

//@ func rpcError
//@   modifies nothing
//@   requires wf != nil
//@   nopanic [C10]
//@   ensures one-callback: calls(wf) == 1 [C09]

//@ func rpcError$1
//@   safety
//@   requires w != nil
//@   at call (*encoding/json.Encoder).Encode: assert error-object-shape: resp.Jsonrpc == "2.0" && resp.ID == req.ID && resp.Error != nil && resp.Error.Code == code && resp.Result == nil && resp.Error.Data == nil && len(resp.Error.Meta) == 0 [C09,C13]
//@   ensures one-value: calls(Encode) == 1 [C09]

//@ func (*handler).handle$1
//@   safety
//@   requires w != nil
//@   ensures one-value: calls(Encode) == 1 [C09]

//@ func withLazyWriter
//@   safety
//@   modifies nothing
//@   requires cb != nil
//@   ensures one-callback: calls(cb) == 1 [C09,C14]

//@ func (*handler).createError
//@   modifies nothing
//@   requires err != nil
//@   ensures result != nil [C11,C10]
//@   nopanic [C10]
//@   ghost msg : U = nil
//@   ghost dynT : U = nil
//@   ghost convErr : U = nil
//@   ghost convTried : Bool = false
//@   ghost marshalErr : U = nil
//@   ghost marshalTried : Bool = false
//@   at ret (error).Error: set msg = $result0
//@   at call (error).Error: assert message-from-the-handlers-error: $0 == old(err) [C11]
//@   at ret reflect.TypeOf: set dynT = $result0
//@   at call reflect.TypeOf: assert code-looked-up-by-dynamic-type: $0 == old(err) [C11]
//@   at maplookup Errors.byType: assert code-looked-up-by-dynamic-type: $key == dynT [C11]
//@   at ret (RPCErrorCodec).ToJSONRPCError: set convErr = $result1
//@   at ret (RPCErrorCodec).ToJSONRPCError: set convTried = true
//@   at ret (RPCErrorCodec).ToJSONRPCError: let conv = $result0
//@   at ret (marshalable).MarshalJSON: set marshalErr = $result1
//@   at ret (marshalable).MarshalJSON: set marshalTried = true
//@   at ret (marshalable).MarshalJSON: let meta = $result0
//@   at call (marshalable).MarshalJSON: assert codec-errors-never-take-the-generic-path: !istype(old(err), #RPCErrorCodec) [C11]
//@   ensures codec-consulted-for-codec-errors: istype(old(err), #RPCErrorCodec) ==> convTried [C11]
//@   ensures codec-output-used-when-conversion-succeeds: convTried && convErr == nil ==> result.Code == conv.Code && result.Message == conv.Message && result.Data == conv.Data && result.Meta == conv.Meta [C11]
//@   ensures generic-error-keeps-code-and-message: !(convTried && convErr == nil) ==> result.Message == msg && result.Code == ite(s.errors != nil && present(s.errors.byType, dynT), s.errors.byType[dynT], 1) && result.Data == nil [C11]
//@   ensures marshalled-meta-attached: marshalTried && marshalErr == nil ==> result.Meta == meta [C11]
//@   ensures no-meta-otherwise: !convTried && !(marshalTried && marshalErr == nil) ==> len(result.Meta) == 0 [C11]

//@ func (*handler).getSpan
//@   modifies nothing
//@   nopanic [C10]

//@ func (response).MarshalJSON
//@   modifies nothing
//@   nopanic [C10]
//@   at call encoding/json.Marshal: assert result-xor-error: present(data, "jsonrpc") && present(data, "id") && present(data, "error") != present(data, "result") && present(data, "error") == (r.Error != nil) [C09,C11]
//@   at call encoding/json.Marshal: assert members-are-the-fields: data["jsonrpc"] == box(r.Jsonrpc) && data["id"] == r.ID && (r.Error == nil ==> data["result"] == r.Result) && unbox($0, #map[string]interface{}) == data [C09,C01]
//@   ensures one-marshal: calls(Marshal) == 1 [C09]

//@ func (*JSONRPCError).val
//@   modifies nothing
//@   nopanic [C10]
//@   ghost failed : Bool = false
//@   ghost built : U = nil
//@   at maplookup Errors.byCode: assert registered-type-looked-up-by-code: $key == e.Code [C11,C05]
//@   at maplookup Errors.byCode: let rtype = $val
//@   at call reflect.New: assert builds-a-value-of-the-registered-type: $0 == ite(KindOf(rtype) == 22, ElemT(rtype), rtype) [C11]
//@   at ret reflect.New: set built = $result0
//@   at call (reflect.Type).Implements: assert capability-checked-on-the-built-values-type: $0 == rtypeOf(built) [C11]
//@   at ret (RPCErrorCodec).FromJSONRPCError: set failed = failed || $result0 != nil
//@   at call (marshalable).UnmarshalJSON: assert meta-handed-to-the-registered-type: $1 == e.Meta && len(e.Meta) > 0 [C11]
//@   at ret (marshalable).UnmarshalJSON: set failed = failed || $result0 != nil
//@   ensures failed-conversion-degrades-to-the-generic-error: failed ==> result == valueOf(box(e)) [C11]
//@   ensures unregistered-code-stays-generic: (errors == nil || !present(errors.byCode, e.Code)) ==> result == valueOf(box(e)) [C11]
//@   ensures registered-form-pointer-or-value: !failed && errors != nil && present(errors.byCode, e.Code) ==> result == ite(KindOf(errors.byCode[e.Code]) == 22, built, elemOf(built)) [C11]

//@ func (*rpcFunc).processResponse
//@   modifies nothing
//@   at call (reflect.Value).Set: assert error-output-only-for-error-responses: resp.Error != nil && calls(val) == 1 [C11]
//@   ensures error-output-set-iff-response-has-error: fn.errOut != -1 ==> (calls(Set) == 1) == (resp.Error != nil) [C11]
//@   ensures outputs-sized-and-value-in-place: len(result) == fn.nout && (fn.valOut != -1 ==> result[fn.valOut] == rval) [C11,C01]
//@   requires descriptor-wellformed: wfRpcFunc(fn) [C01,C11,C10]
//@   nopanic [C10]

//@ func processFuncOut
//@   safety
//@   modifies nothing
//@   may_panic
//@   ensures count: result2 == NumOut(funcType) && result2 <= 2 [C01,C12,C11]
//@   ensures none: result2 == 0 ==> result0 == -1 && result1 == -1 [C01]
//@   ensures one: result2 == 1 ==> (OutT(funcType, 0) == errorType ==> result0 == -1 && result1 == 0) && (OutT(funcType, 0) != errorType ==> result0 == 0 && result1 == -1) [C01,C11]
//@   ensures two: result2 == 2 ==> result0 == 0 && result1 == 1 && OutT(funcType, 1) == errorType [C01,C11]

//@ func (*handler).register
//@   safety
//@   may_panic
//@   requires tables-allocated: s.methods != nil && s.methodNameFormatter != nil [C12,C01]
//@   modifies handler.methods
//@   requires existing-entries-wellformed: handlersOK(s) [C12,C01,C10]
//@   loop 1 invariant table-stays-wellformed: handlersOK(s) [C12,C01,C10]
//@   loop 2 invariant raw-needs-param: i >= 0 && (hasRawParams ==> ins >= 1) && handlersOK(s) [C12,C01,C10]
//@   ensures table-wellformed-after-registration: handlersOK(s) [C12,C01,C10]
//@   at ret dyn:s.methodNameFormatter: let fmtRes = $result0
//@   at call dyn:s.methodNameFormatter: assert formats-namespace-and-method-name: $0 == namespace && $1 == method.Name [C12]
//@   at mapset handler.methods: assert registered-under-formatted-name: $key == fmtRes [C12]
//@   at mapset handler.methods: assert stores-wellformed-handler: wfHandler($val) [C12,C01,C10]
//@   at mapset handler.methods: assert handler-binds-this-method: $val.handlerFunc == method.Func && $val.receiver == val [C12,C01]
//@   at mapset handler.methods: assert param-count-from-signature: $val.nParams == NumIn(rtypeOf(method.Func)) - 1 - $val.hasCtx [C12,C01]
//@   at mapset handler.methods: assert ctx-detected-from-signature: ($val.hasCtx == 1) == (NumIn(rtypeOf(method.Func)) >= 2 && InT(rtypeOf(method.Func), 1) == contextType) [C12,C01]

//@ func (*RPCServer).AliasMethod
//@   modifies handler.aliasedMethods
//@   requires s.handler != nil && s.handler.aliasedMethods != nil
//@   at mapset handler.aliasedMethods: assert alias-maps-to-original: $key == alias && $val == original [C12]
//@   ensures one-entry: true [C12]

//@ func WithClientHandlerAlias$1
//@   requires c != nil && c.aliasedHandlerMethods != nil
//@   at mapset Config.aliasedHandlerMethods: assert alias-maps-to-original: $key == alias && $val == original [C12,C16]

//@ func NewMethodNameFormatter$1
//@   safety
//@   modifies nothing
//@   nopanic [C12]
//@   ensures with-namespace: includeNamespace ==> result == strcat(strcat(namespace, "."), ite(nameCase == 1 && len(method) > 0, strcat(lowerOf(substr(method, 0, 1)), substr(method, 1, len(method))), method)) [C12]
//@   ensures without-namespace: !includeNamespace ==> result == ite(nameCase == 1 && len(method) > 0, strcat(lowerOf(substr(method, 0, 1)), substr(method, 1, len(method))), method) [C12]

//@ func (*client).makeRpcFunc
//@   may_panic
//@   requires formatter-configured: c.methodNameFormatter != nil [C12]
//@   ghost tagName : U = nil
//@   ghost tagOK : Bool = false
//@   at ret (reflect.StructTag).Lookup: set tagName = $result0
//@   at ret (reflect.StructTag).Lookup: set tagOK = $result1
//@   at ret dyn:c.methodNameFormatter: let fmtRes = $result0
//@   at call dyn:c.methodNameFormatter: assert formats-namespace-and-field-name: $0 == c.namespace && $1 == f.Name [C12]
//@   at call (reflect.StructTag).Lookup: assert looks-up-method-tag: $1 == "rpc_method" [C12]
//@   at store rpcFunc.name: assert name-is-tag-or-formatted: $val == ite(tagOK, tagName, fmtRes) [C12]
//@   ghost tagRetry : U = nil
//@   ghost tagNotify : U = nil
//@   at ret (reflect.StructTag).Get: set tagRetry = ite($1 == "retry", $result0, tagRetry)
//@   at ret (reflect.StructTag).Get: set tagNotify = ite($1 == "notify", $result0, tagNotify)
//@   at store rpcFunc.retry: assert retry-only-when-tagged: $val == (tagRetry == "true") [C04,C05]
//@   at store rpcFunc.notify: assert notify-only-when-tagged: $val == (tagNotify == "true") [C04]
//@   at store rpcFunc.client: assert every-proxy-shares-the-one-client: $val == c [C02]
//@   at store rpcFunc.ftyp: assert proxy-typed-as-the-field: $val == f.Type [C01]
//@   at store rpcFunc.hasCtx: assert ctx-detected-from-signature: $val == 1 && NumIn(f.Type) > 0 && InT(f.Type, 0) == contextType [C01]
//@   at store rpcFunc.hasRawParams: assert raw-params-only-as-sole-argument: $val ==> NumIn(f.Type) == fun.hasCtx + 1 && InT(f.Type, fun.hasCtx) == rtRawParams [C01]
//@   at call reflect.MakeFunc: assert proxy-runs-handleRpcCall: isfn($1, "(*rpcFunc).handleRpcCall") && $0 == f.Type [C01,C04]

//@ func doCall
//@   safety
//@   modifies nothing
//@   nopanic [C13]
//@   ensures result-shape: result1 == nil ==> len(result0) == NumOut(rtypeOf(f)) && (forall i :: 0 <= i && i < len(result0) ==> rtypeOf(result0[i]) == OutT(rtypeOf(f), i)) [C13,C10,C01]
//@   ensures panic-is-error: didpanic() ==> result1 != nil && result1 == panicErr [C13]
//@   ghost panicErr : U = nil
//@   at ret xerrors.Errorf: set panicErr = $result0
//@   at call xerrors.Errorf: assert error-mentions-method-and-raw-payload: unbox($1[0], #string) == methodName && $1[1] == i && i != nil [C13]

//@ func (*backoff).next
//@   safety
//@   modifies nothing
//@   requires sane-config: 0 <= b.minDelay && b.minDelay <= b.maxDelay [C05]
//@   ensures in-range: attempt >= 0 ==> b.minDelay <= result && result <= b.maxDelay [C05]
//@   ensures neg: attempt < 0 ==> result == b.minDelay [C05]

//@ func websocketClient
//@   may_panic
//@   nosafety
//@   loop 1 invariant reverse-handler-table-wellformed: handlersOK(h) [C10,C12,C16]
//@   at store handler.aliasedMethods: assert reverse-handler-uses-configured-aliases: $val == config.aliasedHandlerMethods [C16,C12]
//@   at call (*handler).register: assert reverse-handlers-registered-under-their-namespace: $1 == reverseHandler.ns && $2 == reverseHandler.hnd [C16,C12]
//@   at store wsConn.handler: assert connection-dispatches-to-reverse-handler: len(config.reverseHandlers) > 0 ==> $val != nil [C16]
//@   at store wsConn.handler: assert no-handler-means-nil-interface: len(config.reverseHandlers) == 0 ==> $val == nil [C10]
//@   at store wsConn.exiting: assert closer-waits-on-this-connections-exit: $val == exiting [C16,C18]
//@   at store client.exiting: assert callers-watch-this-connections-exit-signal: $val != nil && $val == exiting [C03,C16]
//@   at store wsConn.connFactory: assert no-reconnect-drops-the-dial-factory: config.noReconnect ==> $val == nil [C05]
//@   at store wsConn.reconnectBackoff: assert uses-configured-backoff: $val == config.reconnectBackoff [C05]
//@   at store wsConn.timeout: assert stall-detection-uses-the-configured-timeout: $val == config.timeout [C03,C05]
//@   at store wsConn.pingInterval: assert uses-the-configured-ping-interval: $val == config.pingInterval [C03]

//@ func (*client).setupRequestChan$1
//@   ghost pendingCancel : Bool = false
//@   ghost cancelsSent : Int = 0
//@   at send requests: assert enqueues-the-callers-request-first: calls(Marshal) == 0 ==> $val == cr [C02,C04]
//@   at recv ctxDone: set pendingCancel = true
//@   at call reflect.ValueOf: assert cancel-names-the-waiting-call: $0 == cr.req.ID [C06]
//@   at send requests: assert cancel-message-shape: calls(Marshal) == 1 ==> $val.req.Method == "xrpc.cancel" && $val.req.ID == nil && $val.req.Params == rp && $val.ready != nil && isfreshchan($val.ready) [C06,C02]
//@   at send requests: set pendingCancel = false
//@   ghost exitBeforeEnqueue : Bool = false
//@   ghost mErr : Bool = false
//@   at recv c.exiting: set exitBeforeEnqueue = exitBeforeEnqueue || calls(Marshal) == 0
//@   at ret encoding/json.Marshal: set mErr = $result1 != nil
//@   at recv c.exiting: set pendingCancel = false
//@   at recv c.exiting: assert exit-alternative-present: true [C03,C15,C16]
//@   at makechan: assert cancel-mailbox-buffered: chancap($chan) >= 1 [C15]
//@   loop 1 invariant cancel-never-silently-dropped: !pendingCancel && calls(Marshal) <= 1 [C06]
//@   at recv cr.ready: let got = $val
//@   ensures returns-what-arrived-in-own-mailbox: result1 == nil ==> defined(got) && result0 == got [C02]
//@   ensures gives-up-only-when-client-exits-or-cancel-cannot-be-encoded: result1 != nil ==> exitBeforeEnqueue || mErr [C11,C02,C03]

//@ func (*rpcFunc).handleRpcCall
//@   at call sync/atomic.AddInt64: assert request-ids-come-from-the-connection-wide-counter: fieldof($0) == "client.idCtr" [C02,C06,C16]
//@   may_panic
//@   requires wfRpcFunc(fn) && len(args) >= fn.hasCtx && fn.client.doRequest != nil
//@   ghost lastCode : Int = 0
//@   ghost lastErrNil : Bool = true
//@   ghost slept : Bool = true
//@   at ret (*client).sendRequest: set lastErrNil = $result0.Error == nil
//@   at ret (*client).sendRequest: set lastCode = ite($result0.Error == nil, 0, $result0.Error.Code)
//@   at call (*client).sendRequest: assert resend-only-when-tagged-and-temporary: calls(sendRequest) > 0 ==> fn.retry && !lastErrNil && lastCode == -1111111 && slept [C04,C05]
//@   at call (*client).sendRequest: assert sends-the-same-request: $2.ID == id && $2.Method == fn.name && (fn.notify ==> $2.ID == nil) && (!fn.notify ==> $2.ID != nil) [C04,C02,C01]
//@   at ret (*client).sendRequest: set slept = false
//@   at call time.Sleep: set slept = true
//@   at call time.Sleep: assert retry-spaced-by-backoff: $0 >= methodMinRetryDelay && $0 <= methodMaxRetryDelay [C05]
//@   loop 2 invariant retry-state: attempt >= 0 && (calls(sendRequest) == 0 || (fn.retry && !lastErrNil && lastCode == -1111111 && slept)) && (attempt == 0) == (calls(sendRequest) == 0) [C04,C05]
//@   loop 1 invariant args-marshalled-positionally: len(params) == len(args) - fn.hasCtx && (forall k :: 0 <= k && k <= rangeindex ==> (!present(fn.client.paramEncoders, rtypeOf(args[fn.hasCtx + k])) ==> params[k].v == args[fn.hasCtx + k])) [C01]
//@   at call encoding/json.Marshal: assert marshals-every-positional-argument-in-order: unbox($0, #[]param) == params && rangeindex == len(params) && (forall k :: 0 <= k && k < len(params) ==> (!present(fn.client.paramEncoders, rtypeOf(args[fn.hasCtx + k])) ==> params[k].v == args[fn.hasCtx + k])) [C01]
//@   at call (*client).sendRequest: assert request-carries-the-marshalled-params: $2.Params == serializedParams && $2.Jsonrpc == "2.0" [C01,C09]
//@   at call reflect.New: assert result-decoded-into-the-declared-result-type: $0 == OutT(fn.ftyp, fn.valOut) && fn.valOut != -1 [C01]
//@   at ret reflect.New: let rval = $result0
//@   at call encoding/json.Unmarshal: assert decodes-the-response-result: $0 == resp.Result && $1 == ifaceOf(rval) && resp.Result != nil [C01]
//@   at call processResponse: assert hands-back-the-decoded-value: calls(New) >= 1 ==> $2 == elemOf(rval) [C01]
//@   at call processResponse: assert response-id-checked: fn.notify || resp.ID == req.ID [C02]
//@   at call normalizeID: assert fresh-counter-id: calls(AddInt64) == 1 [C02]
//@   ensures at-most-one-send-unless-retry-tagged: !fn.retry ==> calls(sendRequest) <= 1 [C04]

//@ func (*client).provide
//@   may_panic
//@   ghost lastProxy : U = nil
//@   at ret makeRpcFunc: set lastProxy = $result0
//@   at call makeRpcFunc: assert builds-proxy-from-this-field: calls(makeRpcFunc) == calls(Set) [C04,C01]
//@   at call (reflect.Value).Set: assert every-field-gets-its-own-proxy: $1 == lastProxy && calls(makeRpcFunc) == calls(Set) + 1 [C04,C01]
//@   loop 2 invariant one-proxy-per-field: calls(makeRpcFunc) == calls(Set) && i >= 0 [C04,C01]

//@ func httpClient$1
//@   at call (*net/http.Request).WithContext: assert request-carries-the-callers-context: $1 == ctx [C06]
//@   ensures caller-context-attached: calls(Do) == 1 && ctx != nil ==> calls(WithContext) == 1 [C06]
//@   at call (net/http.Header).Set: assert request-not-marked-idempotent: $1 != "Idempotency-Key" && $1 != "X-Idempotency-Key" [C04]
//@   at call net/http.NewRequest: assert sent-as-post: $0 == "POST" [C04]
//@   at store net/http.Request.Header: assert sends-the-configured-headers: calls(Clone) == 1 [C01]
//@   ensures one-http-exchange: calls(Do) <= 1 [C04]
//@   ghost doErr : U = nil
//@   ghost didDo : Bool = false
//@   at ret (*net/http.Client).Do: set doErr = $result1
//@   at ret (*net/http.Client).Do: set didDo = true
//@   at ret (*net/http.Client).Do: let hresp = $result0
//@   ensures every-json-rpc-reply-is-decoded-whatever-its-length: didDo && doErr == nil && old(cr.req.ID) != nil && !(hresp.StatusCode > 400 && hresp.StatusCode != 500) ==> calls(Decode) == 1 [C13,C11,C01,C09]
//@   ensures answer-carries-request-id: result1 == nil && cr.req.ID != nil ==> result0.ID == cr.req.ID [C02]

//@ func NewCustomClient$1
//@   ensures answer-carries-request-id: result1 == nil && cr.req.ID != nil ==> result0.ID == cr.req.ID [C02]
//@   ensures one-exchange: calls(doRequest) <= 1 [C04]

//@ func (*client).sendRequest
//@   at makechan: assert response-mailbox-buffered: chancap($chan) >= 1 [C15,C02,C03]
//@   at call dyn:c.doRequest: assert fresh-mailbox-per-call: $1.req == req && $1.retCh == chCtor && $0 == ctx [C02,C15]

//@ func (*wsConn).handleChanOut
//@   at recv c.exiting: assert exit-alternative-present: true [C15,C16]
//@   at ret sync/atomic.AddUint64: let freshID = $result0
//@   at send c.registerCh: assert registers-under-fresh-channel-id: $val.reqID == req && $val.ch == ch && $val.chID == freshID [C07]
//@   ensures fresh-channel-id: calls(AddUint64) == 1 [C07]

//@ func (*RPCServer).handleWS
//@   ghost built : Bool = false
//@   at ret dyn:s.reverseClientBuilder: set built = true
//@   ghost bctx : U = nil
//@   at ret dyn:s.reverseClientBuilder: set bctx = $result0
//@   at call dyn:s.reverseClientBuilder: assert builder-gets-this-connection: $1 == wc && $0 == ctx [C16]
//@   at call runtime/pprof.Do: assert connection-loop-gets-the-augmented-context: $0 == ite(built, bctx, ctx) [C16,C15]
//@   at store wsConn.exiting: assert fresh-exit-signal-per-connection: $val != nil && chancap($val) == 0 [C16,C15]
//@   ensures socket-released-after-loop: calls(Upgrade) == 1 [C15]

//@ func (*RPCServer).ServeHTTP
//@   at ret (*net/http.Request).Context: let rctx = $result0
//@   at call handleReader: assert http-handler-context-derives-from-request: ctxParent($1) == rctx [C06]
//@   at call handleWS: assert ws-context-derives-from-request: ctxParent($1) == rctx [C06,C15]

//@ func WithReverseClient$1$1
//@   may_panic
//@   initphase -- runs in handleWS before the connection loop starts: the wsConn is not shared yet
//@   at store client.exiting: assert reverse-client-is-per-connection: isfresh($obj) && $val == conn.exiting [C16]
//@   at store client.namespace: assert reverse-client-is-per-connection: isfresh($obj) [C16]
//@   at store client.methodNameFormatter: assert reverse-calls-use-the-servers-final-formatter: $val == c.methodNameFormatter [C16,C12]
//@   at call (*client).setupRequestChan: assert queue-built-for-this-client: isfresh($0) [C16]
//@   at ret (*client).setupRequestChan: let rq = $result0
//@   at store wsConn.requests: assert connection-serves-this-clients-queue: $obj == conn && $val == rq [C16]
//@   at call (*client).provide: assert proxy-filled-by-this-client: isfresh($0) && calls(setupRequestChan) == 1 [C16]
//@   at call context.WithValue: assert stored-under-type-key-in-callers-context: $0 == ctx && $2 == box(calls) && isfresh(calls) [C16]
//@   at call (*client).provide: assert proxy-struct-is-per-connection: isfresh(calls) [C16]
//@   ensures error-or-context: result1 == nil ==> result0 != nil && ctxParent(result0) == ctx [C16]

//@ func ExtractReverseClient
//@   modifies nothing
//@   at call (context.Context).Value: assert looks-up-in-the-handlers-context: $0 == ctx [C16]
//@   ensures present-only-when-a-non-nil-proxy-is-stored-under-the-key: result1 == (ok && c != nil) [C16]

//@ func makeHandler
//@   modifies nothing
//@   ensures fresh-empty-tables: result != nil && result.methods != nil && result.aliasedMethods != nil && (forall k: U :: !present(result.methods, k)) && (forall k: U :: !present(result.aliasedMethods, k)) [C12,C16,C01]
//@   ensures carries-configuration: result.methodNameFormatter == sc.methodNameFormatter && result.maxRequestSize == sc.maxRequestSize && result.paramDecoders == sc.paramDecoders && result.errors == sc.errors [C12,C10,C11]

//@ func (*client).makeOutChan$1$1
//@   requires incoming != nil
//@   at call reflect.Select: assert always-ready-to-receive-and-to-stop: len($0) >= 2 && $0[0].Dir == 2 && $0[1].Dir == 2 && $0[1].Chan == valueOf(box(incoming)) && (len($0) == 3) == (listlen(buf) > 0) [C07]
//@   at call (*container/list.List).PushBack: assert buffers-in-arrival-order: $0 == buf && ok [C07,C08]
//@   at call (*container/list.List).Remove: assert removes-the-head-that-was-delivered: $0 == buf && $1 == front && chosen == 2 [C07,C08]
//@   at call (reflect.Value).Elem: assert offers-the-oldest-buffered-value: calls(Front) >= 1 && front != nil [C07,C08]
//@   at call (reflect.Value).Close: assert closes-only-when-cancelled-or-drained: chosen == 0 || (incoming == nil && listlen(buf) == 0) [C07,C08]
//@   loop 1 invariant never-idle-with-stream-ended-and-drained: !(incoming == nil && listlen(buf) == 0) && listlen(buf) >= 0 [C08]
//@   ensures closes-exactly-once-before-exit: calls(Close) == 1 [C08]

//@ func (*Errors).Register
//@   may_panic
//@   requires e.byType != nil && e.byCode != nil
//@   ghost nType : Int = 0
//@   ghost nCode : Int = 0
//@   at ret (reflect.Type).Elem: let rt = $result0
//@   at mapset Errors.byType: assert type-registered-exactly-as-given: $key == rt && $val == c [C11]
//@   at mapset Errors.byType: inc nType
//@   at mapset Errors.byType: assert only-error-types-registered: rImplements($key, errorType) [C11]
//@   at mapset Errors.byCode: assert code-maps-back-to-that-type: $key == c && $val == rt [C11]
//@   at mapset Errors.byCode: inc nCode
//@   ensures exactly-one-entry-each-way: nType == 1 && nCode == 1 [C11]

//@ func NewErrors
//@   at mapset: assert connection-error-code-preregistered: $key == -1111111 [C05,C11]

//@ func (*rpcFunc).processError
//@   requires wfRpcFunc(fn)
//@   ensures outputs-sized: len(result) == fn.nout [C11,C01]
//@   at call reflect.ValueOf: assert wraps-the-transport-error: unbox($0, #*ErrClient).err == err [C11]

//@ func (*JSONRPCError).Error
//@   modifies nothing
//@   ensures user-codes-give-message-verbatim: !(e.Code >= -32768 && e.Code <= -32000) ==> result == e.Message && calls(Sprintf) == 0 [C11]
//@   ensures reserved-codes-are-prefixed: (e.Code >= -32768 && e.Code <= -32000) ==> calls(Sprintf) == 1 [C11]

//@ func (*param).UnmarshalJSON
//@   safety
//@   ensures keeps-a-private-copy-of-the-raw-bytes: result == nil && len(p.data) == len(raw) && p.data.base != raw.base && (forall k :: 0 <= k && k < len(raw) ==> p.data[k] == raw[k]) [C01,C07]

//@ func (*param).MarshalJSON
//@   ghost mres : U = nil
//@   at call encoding/json.Marshal: assert marshals-the-wrapped-value: $0 == ifaceOf(p.v) && KindOf(rtypeOf(p.v)) != 0 [C01,C07]
//@   ensures raw-bytes-pass-through: KindOf(rtypeOf(p.v)) == 0 ==> result0 == p.data && result1 == nil && calls(Marshal) == 0 [C01]
//@   ensures value-marshalled-once: KindOf(rtypeOf(p.v)) != 0 ==> calls(Marshal) == 1 [C01,C07]

//@ func WithErrors$1
//@   at store Config.errors: assert error-table-passed-through-unchanged: $val != nil && $val.byCode == es.byCode && $val.byType == es.byType [C05,C11]

//@ func WithServerErrors$1
//@   at store ServerConfig.errors: assert error-table-passed-through-unchanged: $val != nil && $val.byCode == es.byCode && $val.byType == es.byType [C11]

//@ func defaultConfig
//@   ensures every-client-gets-its-own-option-maps: isfresh(result.paramEncoders) && isfresh(result.aliasedHandlerMethods) [C01,C12,C16]

//@ func defaultServerConfig
//@   ensures every-server-gets-its-own-option-maps: isfresh(result.paramDecoders) [C01,C12]
//@   ensures starts-without-custom-decoders: result.paramDecoders != nil && (forall t: U :: !present(result.paramDecoders, t)) [C01,C12,C10]

//@ -- ------------------------------------------------------------------ options, constructors and small closures (configuration reaches the mechanisms unchanged)
//@ func WithMaxRequestSize$1
//@   nosafety
//@   at store ServerConfig.maxRequestSize: assert limit-is-the-configured-value: $val == max [C10]

//@ func WithReconnectBackoff$1
//@   at store Config.reconnectBackoff: assert backoff-is-the-configured-pair: $val.minDelay == minDelay && $val.maxDelay == maxDelay [C05]

//@ func WithNoReconnect$1
//@   at store Config.noReconnect: assert option-disables-reconnect: $val [C05]

//@ func WithMethodNameFormatter$1
//@   at store Config.methodNamer: assert client-uses-the-given-formatter: $val == namer [C12]

//@ func WithServerMethodNameFormatter$1
//@   at store ServerConfig.methodNameFormatter: assert server-uses-the-given-formatter: $val == formatter [C12]

//@ func WithParamEncoder$1
//@   may_panic
//@   at mapset Config.paramEncoders: assert encoder-keyed-by-the-parameter-type: $val == encoder [C01]

//@ func WithParamDecoder$1
//@   may_panic
//@   at mapset ServerConfig.paramDecoders: assert decoder-keyed-by-the-parameter-type: $val == decoder [C01]

//@ func WithClientHandler$1
//@   at store Config.reverseHandlers: assert appends-this-handler: len($val) == len(old(c.reverseHandlers)) + 1 [C16]

//@ func NewServer
//@   may_panic
//@   nosafety
//@   at call makeHandler: assert handler-built-from-the-final-configuration: $0 == config [C10,C12]
//@   at store RPCServer.reverseClientBuilder: assert reverse-builder-from-configuration: $val == config.reverseClientBuilder [C16]
//@   at store RPCServer.pingInterval: assert ping-interval-from-configuration: $val == config.pingInterval [C12,C10]

//@ func (*RPCServer).HandleRequest
//@   nosafety
//@   requires server-tables-wellformed: s.handler != nil && handlersOK(s.handler)
//@   at call handleReader: assert plain-requests-use-the-standard-error-writer: $1 == ctx && $2 == r && $3 == w && isfn($4, "rpcError") [C09,C10]

//@ func (*RPCServer).Register
//@   may_panic
//@   requires server-tables-wellformed: s.handler != nil && handlersOK(s.handler) && s.handler.methodNameFormatter != nil
//@   at call register: assert registers-under-the-given-namespace: $1 == namespace && $2 == handler [C12]

//@ func NewMergeClient
//@   may_panic
//@   at call websocketClient: assert ws-client-gets-the-configured-options: $1 == addr && $2 == namespace && $3 == outs && $5 == config [C12,C01]
//@   at call httpClient: assert http-client-gets-the-configured-options: $1 == addr && $2 == namespace && $3 == outs && $5 == config [C12,C01]

//@ func NewCustomClient
//@   may_panic
//@   ghost built : Bool = false
//@   at store client.methodNameFormatter: set built = true
//@   at dyncall o: assert every-option-applied-before-the-client-is-built: !built [C12,C01,C11]
//@   loop 1 invariant no-client-field-read-while-options-run: !built [C12,C01,C11]
//@   at store client.methodNameFormatter: assert uses-configured-formatter: $val == config.methodNamer [C12,C01]
//@   at store client.paramEncoders: assert uses-configured-encoders: $val == config.paramEncoders [C01]
//@   at store client.errors: assert uses-configured-error-table: $val == config.errors [C11,C01]
//@   at store client.doRequest: assert installs-the-custom-transport: isfn($val, "NewCustomClient$1") [C01]

//@ func httpClient
//@   may_panic
//@   at store client.methodNameFormatter: assert uses-configured-formatter: $val == config.methodNamer [C12,C01]
//@   at store client.paramEncoders: assert uses-configured-encoders: $val == config.paramEncoders [C01]
//@   at store client.errors: assert uses-configured-error-table: $val == config.errors [C11,C01]
//@   at store client.doRequest: assert installs-the-http-transport: isfn($val, "httpClient$1") [C01]

//@ func DecodeParams
//@   at call encoding/json.Unmarshal: assert decodes-the-raw-params-verbatim: len($0) == len(p) && $0.base == p.base [C01]

//@ func (*deadlineResetReader).Read
//@   ghost rn : Int = 0
//@   ghost rerr : U = nil
//@   at call (io.Reader).Read: assert reads-into-the-callers-buffer-once: $1 == p && calls(Read) == 0 [C01,C14,C03]
//@   at ret (io.Reader).Read: set rn = $result0
//@   at ret (io.Reader).Read: set rerr = $result1
//@   ensures frame-bytes-pass-through-unchanged: result0 == rn && result1 == rerr [C01,C14,C03]
//@   at store deadlineResetReader.lastReset: assert the-slow-read-clock-restarts-only-when-the-deadline-was-renewed: calls(reset) == 1 [C01,C03]

//@ func (*handler).handleReader$1
//@   requires cb != nil
//@   at dyncall cb: assert hands-out-the-reply-writer: $0 == w [C09]
//@   ensures callback-exactly-once: calls(cb) == 1 [C09,C15]

//@ func (*handler).handleReader$2
//@   requires cb != nil
//@   ensures callback-exactly-once: calls(cb) == 1 [C09,C15]

//@ func (*wsConn).handleCall$1
//@   requires cb != nil
//@   ensures callback-exactly-once: calls(cb) == 1 [C09,C15]

//@ func (*lazyWriter).Write$1
//@   ensures asks-the-provider-once: calls(withWriterFunc) == 1 [C15,C14]

//@ func websocketClient$1
//@   ensures dial-failure-is-a-typed-connection-error: result1 != nil ==> istype(result1, #*RPCConnectionError) && result0 == nil [C05]

//@ func websocketClient$2$1
//@   at call handleWsConn: assert connection-loop-runs-under-the-labelled-client-context: $0 == wconn && $1 == ctx [C16,C15]

//@ func websocketClient$3
//@   at close stop: assert closer-signals-stop-first: true [C03,C18]
//@   at recv exiting: assert closer-waits-for-the-loop-to-finish: calls(close) >= 0 [C03,C18]

//@ func (*RPCServer).handleWS$1
//@   at call handleWsConn: assert connection-loop-runs-under-the-labelled-context: $0 == wc && $1 == ctx [C15,C16]

//@ func (*client).makeOutChan$1
//@   may_panic
//@   requires valid-result-index: 0 <= valOut && valOut < NumOut(ftyp)
//@   at go makeOutChan$1$1: assert buffer-goroutine-started-before-sink-is-handed-out: true [C07,C08]
//@   ensures sink-and-context: result1 != nil && result0 == ctx [C07,C08,C06]

//@ func (*client).setupRequestChan
//@   at makechan: assert request-queue-unbuffered: chancap($chan) == 0 [C03,C02]
//@   at store client.doRequest: assert installs-the-websocket-transport: isfn($val, "(*client).setupRequestChan$1") [C01,C02]

//@ func (*wsConn).setupPings$1

//@ func (*wsConn).setupPings$2

//@ func (*wsConn).setupPings$5$1
//@   at close stop: assert stops-the-ping-loop: true [C14,C08]

//@ func (*ErrClient).Error
//@   modifies nothing

//@ func (*ErrClient).Unwrap
//@   modifies nothing
//@   ensures unwraps-the-transport-error: result == e.err [C11]

//@ func (*RPCConnectionError).Error
//@   modifies nothing
//@   safety
//@   nopanic [C05]
//@   at call (error).Error: assert wrapped-error-consulted-only-when-present: e.err != nil [C05]

//@ func (*RPCConnectionError).Unwrap
//@   modifies nothing
//@   ensures unwraps-the-dial-error-when-present: e.err != nil ==> result == e.err [C05]
