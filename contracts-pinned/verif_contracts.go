//go:build verif

package jsonrpc

//@ property C10 units: normalizeID, (*wsConn).cancelCtx, (*wsConn).handleChanMessage, (*wsConn).handleChanClose, (*wsConn).handleResponse, (*wsConn).handleFrame, (*wsConn).frameExecutor, (*wsConn).handleCall, (*wsConn).readFrame, (*wsConn).nextMessage, (*handler).handleReader, (*handler).handle, rpcError, (*handler).createError, (response).MarshalJSON, (*handler).getSpan, (*JSONRPCError).val, (*rpcFunc).processResponse, (*client).makeOutChan$1$2
//@ property C13 units: doCall
//@ property C05 units: (*backoff).next

//@ pred idok(x) := typeof(x) == #string || typeof(x) == #float64 || x == nil

//@ func normalizeID
//@   ensures idok: result1 == nil ==> idok(result0) [C10,C02,C09]
//@   ensures err-or-id: result1 != nil ==> result0 == nil [C09]
//@   nopanic [C10]

//@ func doCall
//@   nopanic [C13]

//@ func (*backoff).next
//@   requires 0 <= b.minDelay && b.minDelay <= b.maxDelay
//@   ensures in-range: attempt >= 0 ==> b.minDelay <= result && result <= b.maxDelay [C05]
//@   ensures neg: attempt < 0 ==> result == b.minDelay [C05]
