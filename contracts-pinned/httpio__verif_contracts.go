//go:build verif

package httpio

// Contracts for contract-based deductive verification (checked by /verif/tool, see /verif/DESIGN.md).
// Comments only; compiled only with the build tag `verif`.

//@ property C20 units: (*httpio.waitReadCloser).Read, (*httpio.waitReadCloser).Close, httpio.ReaderParamDecoder$1, httpio.ReaderParamDecoder$2, httpio.ReaderParamEncoder$1, httpio.ReaderParamEncoder$1$1

//@ guards var:readersLk: var:readers [C20]

//@ -- object invariant of the wrapper: the completion signal has been given iff the once-guard has fired
//@ pred wfWRC(w) := w.wait != nil && closed(w.wait) == oncedone(w.waitOnce)

//@ func (*httpio.waitReadCloser).Read
//@   safety
//@   requires wrapper-wellformed: wfWRC(w) [C20]
//@   ghost rn : Int = 0
//@   ghost rerr : U = nil
//@   at call (io.ReadCloser).Read: assert delegates-once-with-the-callers-buffer: $1 == p && calls(Read) == 0 [C20]
//@   at ret (io.ReadCloser).Read: set rn = $result0
//@   at ret (io.ReadCloser).Read: set rerr = $result1
//@   ensures returns-exactly-the-underlying-result: result0 == rn && result1 == rerr && calls(Read) == 1 [C20]
//@   ensures completion-signalled-on-error-or-eof: result1 != nil ==> closed(w.wait) [C20]
//@   ensures completion-signalled-only-at-end-of-stream: closed(w.wait) && !old(closed(w.wait)) ==> result1 != nil [C20]
//@   ensures wrapper-stays-wellformed: wfWRC(w) [C20]
//@   nopanic [C20]

//@ func (*httpio.waitReadCloser).Close
//@   safety
//@   requires wrapper-wellformed: wfWRC(w) [C20]
//@   ensures completion-signalled: closed(w.wait) [C20]
//@   ensures delegates-close-once: calls(Close) == 1 [C20]
//@   ensures wrapper-stays-wellformed: wfWRC(w) [C20]
//@   nopanic [C20]

//@ func httpio.ReaderParamDecoder$1
//@   ghost waited : Bool = false
//@   ghost handedOver : Bool = false
//@   at ret github.com/google/uuid.Parse: let uid = $result0
//@   ghost perr : U = nil
//@   at ret github.com/google/uuid.Parse: set perr = $result1
//@   at call net/http.Error: assert error-reply-only-for-unparsable-ids: perr != nil && $2 == 400 [C20]
//@   at maplookup var:readers: assert rendezvous-by-upload-id: $key == uid [C20]
//@   at maplookup var:readers: let found = $ok
//@   at maplookup var:readers: let existing = $val
//@   at mapset var:readers: assert creates-channel-only-if-absent: $key == uid && !found && chancap($val) == 0 && $val != nil [C20]
//@   at send ch: assert hands-over-this-uploads-body: $chan == ite(found, existing, ch) && $val.ReadCloser == req.Body && $val.wait != nil && !closed($val.wait) && chancap($val.wait) == 0 [C20]
//@   at send ch: set handedOver = true
//@   at recv wr.wait: set waited = true
//@   at call WriteHeader: assert success-only-after-the-handler-consumed-the-stream: $1 == 200 ==> handedOver && waited [C20]
//@   at call WriteHeader: assert status-codes: $1 == 200 || $1 == 500 [C20]
//@   at send ch: assert never-blocks-under-the-registry-lock: nolocks() [C20]
//@   ensures registry-lock-released: nolocks() [C20]

//@ func httpio.ReaderParamDecoder$2
//@   ghost gotReader : U = nil
//@   at ret github.com/google/uuid.Parse: let uid = $result0
//@   at call encoding/json.Unmarshal: assert id-decoded-from-the-param: $0 == b [C20]
//@   at call github.com/google/uuid.Parse: assert parses-the-decoded-id: $0 == strId [C20]
//@   at maplookup var:readers: assert rendezvous-by-param-id: $key == uid [C20]
//@   at maplookup var:readers: let found = $ok
//@   at mapset var:readers: assert creates-channel-only-if-absent: $key == uid && !found && chancap($val) == 0 && $val != nil [C20]
//@   at recv ch: set gotReader = $val
//@   at call reflect.ValueOf: assert returns-the-reader-received-for-that-id: unbox($0, #*waitReadCloser) == gotReader [C20]
//@   ensures at-most-one-reader-returned: calls(ValueOf) <= 1 [C20]
//@   at recv ch: assert never-blocks-under-the-registry-lock: nolocks() [C20]
//@   ensures registry-lock-released: nolocks() [C20]

//@ func httpio.ReaderParamEncoder$1
//@   may_panic
//@   at ret net/url.Parse: let purl = $result0
//@   at ret (github.com/google/uuid.UUID).String: let idstr = $result0
//@   at call net/url.Parse: assert url-built-per-call: $0 == addr [C20]
//@   at call (github.com/google/uuid.UUID).String: assert url-names-this-calls-id: $0 == reqID [C20]
//@   at call path.Join: assert upload-path-ends-with-the-id: len($0) == 2 && $0[1] == idstr [C20]
//@   at store net/url.URL.Path: assert writes-this-calls-own-url: $obj == purl [C20]
//@   at call reflect.ValueOf: assert substitutes-the-id-used-in-the-url: unbox($0, #uuid.UUID) == reqID [C20]
//@   ensures fresh-id-per-reader: calls(New) == 1 && spawned() [C20]

//@ func httpio.ReaderParamEncoder$1$1
//@   at ret (*net/url.URL).String: let ustr = $result0
//@   at call (*net/url.URL).String: assert posts-to-this-calls-url: $0 == u [C20]
//@   at call net/http.Post: assert uploads-the-callers-reader: $0 == ustr && $2 == r [C20]
//@   ensures one-upload: calls(Post) == 1 [C20]
//@   ghost postErr : U = nil
//@   at ret net/http.Post: set postErr = $result1
//@   at call (io.ReadCloser).Close: assert response-touched-only-after-a-successful-upload: postErr == nil [C20]
