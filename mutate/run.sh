#!/bin/bash
# mutate/run.sh <workers> : mutation probe of the checks. For every syntactic mutant that compiles and passes the
# existing test suite, run all property checks against it and record which alarm. Results: /tmp/mut/results.tsv
export GOFLAGS=-mod=mod GOPROXY=off GOSUMDB=off GOTOOLCHAIN=local
W=${1:-6}
PROPS="C01 C02 C03 C04 C05 C06 C07 C08 C09 C10 C11 C12 C13 C14 C15 C16 C19 C20"
find /tmp/mut/src -type f -name '*.go' | sort -R --random-source=<(yes) > /tmp/mut/all.txt
: > /tmp/mut/results.tsv
worker() {
  w=$1; R=/tmp/mut/w$w; rm -rf $R; mkdir -p $R/repo
  (cd /repo && git ls-files -z | xargs -0 cp --parents -t $R/repo)
  awk -v w=$w -v n=$W 'NR % n == w' /tmp/mut/all.txt | while read m; do
    dir=$(basename $(dirname $m)); rel=$(echo $dir | sed 's/_/\//; s/options\/server/options_server/; s/method\/formatter/method_formatter/')
    desc=$(cat ${m%.go}.txt)
    cp $R/repo/$rel $R/orig.go; cp $m $R/repo/$rel
    if ! (cd $R/repo && go build ./... >/dev/null 2>&1 && go vet ./... >/dev/null 2>&1); then res="nocompile"
    elif ! (cd $R/repo && timeout 200 go test -vet=off -count=1 -timeout 150s ./... >/dev/null 2>&1); then res="killed-by-tests"
    else
      caught=""
      fn=$(echo "$desc" | awk '{print $2}' | tr -d ':')
      PR=$(awk -F'\t' -v f="$fn" '$1==f{print $2}' /tmp/mut/fnprops.tsv)
      if [ -z "$PR" ]; then printf '%s\t%s\t%s\n' "$(basename $m)" "not-under-contract" "$desc" >> /tmp/mut/results.tsv; cp $R/orig.go $R/repo/$rel; continue; fi
      for p in $PR; do
        out=$(/verif/bin/govc -prop $p -tier quick -repo $R/repo -verif /verif -out $R/out -noreplay 2>&1); rc=$?
        if [ $rc -eq 1 ]; then caught="$caught $p"; elif [ $rc -ne 0 ]; then caught="$caught $p(err)"; fi
      done
      if [ -z "$caught" ]; then res="SURVIVED"; else res="caught:$caught"; fi
    fi
    printf '%s\t%s\t%s\n' "$(basename $m)" "$res" "$desc" >> /tmp/mut/results.tsv
    cp $R/orig.go $R/repo/$rel
  done
  rm -rf $R
}
for w in $(seq 0 $((W-1))); do worker $w & done
wait
echo "mutation probe done: $(wc -l < /tmp/mut/results.tsv) mutants"
