// mutate: enumerates simple syntactic mutants of a Go file (for probing the verification checks).
// usage: mutate <file.go> <outdir>   -> writes <outdir>/<base>.<n>.go and <outdir>/<base>.<n>.txt (description)
package main

import (
	"bytes"
	"fmt"
	"go/ast"
	"go/parser"
	"go/printer"
	"go/token"
	"os"
	"path/filepath"
	"strings"
)

type mutation struct {
	desc  string
	apply func()
	undo  func()
}

func main() {
	file, out := os.Args[1], os.Args[2]
	fset := token.NewFileSet()
	f, err := parser.ParseFile(fset, file, nil, parser.ParseComments)
	if err != nil {
		panic(err)
	}
	var muts []mutation
	pos := func(n ast.Node) string { p := fset.Position(n.Pos()); return fmt.Sprintf("%s:%d", filepath.Base(p.Filename), p.Line) }
	swap := map[token.Token]token.Token{token.EQL: token.NEQ, token.NEQ: token.EQL, token.LSS: token.LEQ, token.LEQ: token.LSS, token.GTR: token.GEQ, token.GEQ: token.GTR,
		token.LAND: token.LOR, token.LOR: token.LAND, token.ADD: token.SUB, token.SUB: token.ADD}
	var curFunc string
	ast.Inspect(f, func(n ast.Node) bool {
		switch x := n.(type) {
		case *ast.FuncDecl:
			curFunc = x.Name.Name
		case *ast.BinaryExpr:
			if to, ok := swap[x.Op]; ok {
				from := x.Op
				if from == token.ADD {
					// skip string concatenations
					if bl, ok := x.X.(*ast.BasicLit); ok && bl.Kind == token.STRING {
						return true
					}
					if bl, ok := x.Y.(*ast.BasicLit); ok && bl.Kind == token.STRING {
						return true
					}
				}
				muts = append(muts, mutation{fmt.Sprintf("%s %s: %s -> %s", pos(x), curFunc, from, to), func() { x.Op = to }, func() { x.Op = from }})
			}
		case *ast.IfStmt:
			c := x.Cond
			muts = append(muts, mutation{fmt.Sprintf("%s %s: negate if condition", pos(x), curFunc), func() { x.Cond = &ast.UnaryExpr{Op: token.NOT, X: &ast.ParenExpr{X: c}} }, func() { x.Cond = c }})
		case *ast.BlockStmt:
			for i, st := range x.List {
				i, st := i, st
				del := false
				switch s := st.(type) {
				case *ast.ExprStmt:
					if call, ok := s.X.(*ast.CallExpr); ok {
						name := exprStr(fset, call.Fun)
						if strings.HasPrefix(name, "log.") || strings.HasPrefix(name, "stats.") || strings.Contains(name, "span.") {
							break
						}
						del = true
					}
				case *ast.AssignStmt:
					if s.Tok == token.ASSIGN {
						del = true
					}
				case *ast.DeferStmt, *ast.GoStmt, *ast.SendStmt, *ast.IncDecStmt:
					del = true
				case *ast.BranchStmt:
					del = s.Tok == token.CONTINUE || s.Tok == token.BREAK
				case *ast.ReturnStmt:
					del = len(s.Results) == 0 && i != len(x.List)-1
				}
				if del {
					lst := x
					muts = append(muts, mutation{fmt.Sprintf("%s %s: delete statement `%s`", pos(st), curFunc, truncate(exprStr(fset, st), 70)),
						func() { lst.List[i] = &ast.EmptyStmt{Semicolon: st.Pos(), Implicit: true} }, func() { lst.List[i] = st }})
				}
			}
		case *ast.BasicLit:
			if x.Kind == token.INT && (x.Value == "0" || x.Value == "1") {
				old := x.Value
				nv := "1"
				if old == "1" {
					nv = "0"
				}
				muts = append(muts, mutation{fmt.Sprintf("%s %s: literal %s -> %s", pos(x), curFunc, old, nv), func() { x.Value = nv }, func() { x.Value = old }})
			}
		case *ast.Ident:
			if x.Name == "true" || x.Name == "false" {
				old := x.Name
				nv := "false"
				if old == "false" {
					nv = "true"
				}
				muts = append(muts, mutation{fmt.Sprintf("%s %s: %s -> %s", pos(x), curFunc, old, nv), func() { x.Name = nv }, func() { x.Name = old }})
			}
		}
		return true
	})
	base := strings.TrimSuffix(filepath.Base(file), ".go")
	for i, m := range muts {
		m.apply()
		var buf bytes.Buffer
		if err := printer.Fprint(&buf, fset, f); err == nil {
			_ = os.WriteFile(filepath.Join(out, fmt.Sprintf("%s.%04d.go", base, i)), buf.Bytes(), 0o644)
			_ = os.WriteFile(filepath.Join(out, fmt.Sprintf("%s.%04d.txt", base, i)), []byte(m.desc+"\n"), 0o644)
		}
		m.undo()
	}
	fmt.Printf("%s: %d mutants\n", file, len(muts))
}

func exprStr(fset *token.FileSet, n ast.Node) string {
	var b bytes.Buffer
	_ = printer.Fprint(&b, fset, n)
	return strings.Join(strings.Fields(b.String()), " ")
}

func truncate(s string, n int) string {
	if len(s) > n {
		return s[:n]
	}
	return s
}
