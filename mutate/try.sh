#!/bin/bash
# mutate/try.sh <mutant-file-basename e.g. reader.0014.go> <props...> : run checks against one mutant in a scratch copy
export GOFLAGS=-mod=mod GOPROXY=off GOSUMDB=off GOTOOLCHAIN=local
m=$(find /tmp/mut/src -name "$1" | head -1); shift
[ -z "$m" ] && { echo "no such mutant"; exit 2; }
dir=$(basename $(dirname $m)); rel=$(echo $dir | sed 's/_/\//; s/options\/server/options_server/; s/method\/formatter/method_formatter/')
R=$(mktemp -d /tmp/mtry.XXXX); mkdir $R/repo
(cd /repo && git ls-files -z | xargs -0 cp --parents -t $R/repo)
cp $m $R/repo/$rel
echo "== $(cat ${m%.go}.txt)"
for p in "$@"; do
  /verif/bin/govc -prop $p -tier quick -repo $R/repo -verif /verif -out $R/out -noreplay 2>&1 | grep -E "VIOLATION|BROKEN|govc: property" | sed 's/replay=[^ ]*replays/replay=…/' | cut -c1-260
done
rm -rf $R
