#!/bin/bash
# mutate/recheck.sh [workers] : re-run the SURVIVED mutants of /tmp/mut/results.tsv against the current contracts
export GOFLAGS=-mod=mod GOPROXY=off GOSUMDB=off GOTOOLCHAIN=local
W=${1:-4}
grep -P '\tSURVIVED\t' /tmp/mut/results.tsv > /tmp/mut/surv.tsv
: > /tmp/mut/recheck.tsv
worker() {
  w=$1; R=/tmp/mut/r$w; rm -rf $R; mkdir -p $R/repo
  (cd /repo && git ls-files -z | xargs -0 cp --parents -t $R/repo)
  awk -v w=$w -v n=$W 'NR % n == w' /tmp/mut/surv.tsv | while IFS=$'\t' read base res desc; do
    m=$(find /tmp/mut/src -name "$base" | head -1)
    dir=$(basename $(dirname $m)); rel=$(echo $dir | sed 's/_/\//; s/options\/server/options_server/; s/method\/formatter/method_formatter/')
    cp $R/repo/$rel $R/orig.go; cp $m $R/repo/$rel
    fn=$(echo "$desc" | awk '{print $2}' | tr -d ':')
    PR=$(awk -F'\t' -v f="$fn" '$1==f{print $2}' /tmp/mut/fnprops.tsv)
    caught=""
    for p in $PR; do
      /verif/bin/govc -prop $p -tier quick -repo $R/repo -verif /verif -out $R/out -noreplay >/dev/null 2>&1; rc=$?
      if [ $rc -eq 1 ]; then caught="$caught $p"; elif [ $rc -ne 0 ]; then caught="$caught $p(err)"; fi
    done
    [ -z "$caught" ] && res2="SURVIVED" || res2="caught:$caught"
    printf '%s\t%s\t%s\n' "$base" "$res2" "$desc" >> /tmp/mut/recheck.tsv
    cp $R/orig.go $R/repo/$rel
  done
  rm -rf $R
}
for w in $(seq 0 $((W-1))); do worker $w & done
wait
echo "recheck done: $(grep -c SURVIVED /tmp/mut/recheck.tsv) of $(wc -l < /tmp/mut/surv.tsv) still survive"
