#!/bin/bash
# mutate/adopt.sh <mutant basename> <prop> : turn a probe mutant into a selftest patch (gofmt'ed, minimal diff)
set -e
cd "$(dirname "$0")/.."
base=$1; prop=$2
m=$(find /tmp/mut/src -name "$base" | head -1); dir=$(basename $(dirname $m)); rel=$(echo $dir | sed 's/_/\//; s/options\/server/options_server/; s/method\/formatter/method_formatter/')
T=$(mktemp -d /tmp/adopt.XXXX); mkdir -p $T/a/$(dirname $rel) $T/b/$(dirname $rel)
cp /repo/$rel $T/a/$rel; gofmt $m > $T/b/$rel
name="probe_$(echo ${base%.go} | tr . _)"
(cd $T && diff -u a/$rel b/$rel > $OLDPWD/selftest/mutants/$name.patch || true)
rm -rf $T
grep -v "mutants/$name.patch" selftest/expect.tsv > selftest/expect.tmp || true; mv selftest/expect.tmp selftest/expect.tsv
printf 'selftest/mutants/%s.patch\t%s\t-\n' "$name" "$prop" >> selftest/expect.tsv
echo "# $(cat ${m%.go}.txt)" | sed 's/^/  /'
