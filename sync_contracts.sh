#!/bin/bash
# sync_contracts.sh: copy the authoritative contract files (contracts-pinned) into /repo as ONE add-only hook commit
# on top of the last fix: commit, and record its hash in MANIFEST.hooks.source_commits.
set -e
cd "$(dirname "$0")"
export GOFLAGS=-mod=mod GOPROXY=off GOSUMDB=off GOTOOLCHAIN=local
BASE=$(git -C /repo log --format='%H %s' | grep -v ' verif:' | head -1 | cut -d' ' -f1)
[ -z "$(git -C /repo status --short)" ] || { echo "/repo working tree is not clean"; exit 1; }
git -C /repo reset -q --soft $BASE
cp contracts-pinned/verif_contracts.go /repo/verif_contracts.go
cp contracts-pinned/auth__verif_contracts.go /repo/auth/verif_contracts.go
cp contracts-pinned/httpio__verif_contracts.go /repo/httpio/verif_contracts.go
(cd /repo && go build ./... && go build -tags verif ./... && git add -A && git commit -qm "verif: contracts for deductive verification (comment-only files behind the verif build tag)")
H=$(git -C /repo log --format=%H -1)
sed -i "s/\"source_commits\":\[[^]]*\]/\"source_commits\":[\"$H\"]/" gen_manifest.py
python3 gen_manifest.py
echo "hook commit $H"
